package simrt

import (
	"hash/fnv"
	"math/rand/v2"
)

// The choice tape: every decision of a run (schedule, select case, event,
// fault, generated operation, size) is drawn through it.  In generation mode
// it is a seeded PRNG that records what it returned; in replay mode it plays
// recorded values back (0 when exhausted: "the unsurprising choice").

type choiceKind uint8

const (
	kindData choiceKind = iota
	kindSched
	kindSelect
)

// Rec is one recorded choice.
type Rec struct {
	L uint32 // label hash
	N int    // arity
	V int    // value chosen
}

type Tape struct {
	Seed     uint64
	rng      *rand.Rand
	replay   []Rec
	replayOn bool
	pos      int
	rec      []Rec
	diverged bool
	// generation knobs (derived from the seed, "swarm")
	stick     float64 // probability of choice 0 at a schedule point
	selZero   float64
	record    bool
	pctPoints map[int]bool
}

// NewTape returns a generating tape for the given seed.
func NewTape(seed uint64) *Tape {
	r := rand.New(rand.NewPCG(seed, seed^0x9e3779b97f4a7c15))
	t := &Tape{Seed: seed, rng: r, record: true}
	// swarm: stickiness differs per run
	switch r.IntN(6) {
	case 0:
		t.stick = 0.0 // uniform random scheduling
	case 1:
		t.stick = 0.5
	case 2:
		t.stick = 0.8
	case 3:
		t.stick = 0.9
	case 4:
		t.stick = 0.95
	case 5:
		t.stick = 0.98
	}
	t.selZero = 0.7
	return t
}

// ReplayTape returns a tape that plays back recorded choices.
func ReplayTape(recs []Rec) *Tape {
	return &Tape{replay: recs, replayOn: true, record: true}
}

func labelHash(l string) uint32 {
	h := fnv.New32a()
	h.Write([]byte(l))
	return h.Sum32()
}

func (t *Tape) choose(label string, n int, kind choiceKind) int {
	if n <= 1 {
		return 0
	}
	var v int
	lh := labelHash(label)
	if t.replayOn {
		if t.pos < len(t.replay) {
			r := t.replay[t.pos]
			v = r.V
			if r.L != lh || r.N != n {
				t.diverged = true
			}
			if v >= n || v < 0 {
				v = ((v % n) + n) % n
			}
		} else {
			v = 0
		}
	} else {
		switch kind {
		case kindSched:
			if t.rng.Float64() < t.stick {
				v = 0
			} else {
				v = t.rng.IntN(n)
			}
		case kindSelect:
			if t.rng.Float64() < t.selZero {
				v = 0
			} else {
				v = t.rng.IntN(n)
			}
		default:
			v = t.rng.IntN(n)
		}
	}
	t.pos++
	if t.record {
		t.rec = append(t.rec, Rec{L: lh, N: n, V: v})
	}
	return v
}

func (t *Tape) chooseBiased(label string, num, den int) bool {
	lh := labelHash(label)
	var v int
	if t.replayOn {
		if t.pos < len(t.replay) {
			r := t.replay[t.pos]
			v = r.V
			if r.L != lh || r.N != 2 {
				t.diverged = true
			}
			if v != 0 {
				v = 1
			}
		}
	} else if t.rng.IntN(den) < num {
		v = 1
	}
	t.pos++
	if t.record {
		t.rec = append(t.rec, Rec{L: lh, N: 2, V: v})
	}
	return v == 1
}

// Choice lets harness code draw outside a scheduler run (generation of the
// workload before the bubble starts).
func (t *Tape) Choice(label string, n int) int { return t.choose(label, n, kindData) }

// Chance: true with probability num/den when generating.
func (t *Tape) Chance(label string, num, den int) bool { return t.chooseBiased(label, num, den) }

// Records returns the choices made so far.
func (t *Tape) Records() []Rec { return t.rec }

// Used returns how many choices were drawn.
func (t *Tape) Used() int { return t.pos }

// Diverged reports whether a replayed tape did not match label/arity of some choice.
func (t *Tape) Diverged() bool { return t.diverged }

// Replaying reports whether the tape is in replay mode.
func (t *Tape) Replaying() bool { return t.replayOn }
