// Package simrt is the deterministic-simulation runtime used by the /verif
// checks.  It is copied into the instrumented scratch copy of the repository
// as capnproto.org/go/capnp/v3/simrt, so that both the mechanically
// instrumented library code and the harness engines can import it.
//
// With no scheduler installed (Current() == nil) every hook is a pass-through
// to the real sync primitive / a no-op, so the instrumented library behaves
// exactly like the original (this is what lets the repository's own test
// suite validate the instrumenter).
//
// With a scheduler installed (inside Run) exactly one task at a time holds
// the "baton" and executes; every other task is parked on its private channel
// or durably blocked inside a channel operation of the code under test.  The
// scheduler (the root goroutine of one testing/synctest bubble) waits for
// quiescence with synctest.Wait, computes the runnable set and asks the
// choice tape which task (or environment event) goes next.  A run is a pure
// function of (tape, code).
package simrt

import (
	"os"
	"fmt"
	"hash/fnv"
	"reflect"
	"regexp"
	"runtime"
	"sort"
	"strings"
	"sync"
	"sync/atomic"
	"testing"
	"testing/synctest"
	"time"
)

// ---------------------------------------------------------------------------
// global scheduler pointer

var cur atomic.Pointer[Sched]

// Current returns the installed scheduler or nil.
func Current() *Sched { return cur.Load() }

// ---------------------------------------------------------------------------
// tasks

type tstate uint8

const (
	stRunnable  tstate = iota // parked on wake channel, may be granted
	stRunning                 // holds the baton (or is blocked inside SUT: see inSUT)
	stWaitMutex               // parked, not runnable until the mutex is released
	stWaitCond                // parked, runnable when cond() is true
	stBlockedSUT              // was granted, did not park again: sits in a channel op / WaitGroup / sleep
	stExited
)

func (s tstate) String() string {
	switch s {
	case stRunnable:
		return "runnable"
	case stRunning:
		return "running"
	case stWaitMutex:
		return "wait-mutex"
	case stWaitCond:
		return "wait-env"
	case stBlockedSUT:
		return "blocked-in-sut"
	case stExited:
		return "exited"
	}
	return "?"
}

// Task is one goroutine under scheduler control.
type Task struct {
	ID       int
	Name     string
	Workload bool // spawned by the harness; must finish for a run to be complete
	s        *Sched
	wake     chan struct{}
	state    tstate
	baton    bool
	abort    bool
	cond     func() bool
	condKey  string
	waitM    *Mutex
	held     int // simulated mutexes currently held
	goid     uint64
	point    string // last schedule point label
}

func (t *Task) String() string { return fmt.Sprintf("T%d(%s)", t.ID, t.Name) }

// ---------------------------------------------------------------------------
// verdicts

// Verdict describes a property violation (or infrastructure problem) found in a run.
type Verdict struct {
	Oracle string `json:"oracle"`
	Site   string `json:"site"`
	Detail string `json:"detail"`
}

func (v *Verdict) String() string {
	if v == nil {
		return "<none>"
	}
	return v.Oracle + " @ " + v.Site + ": " + v.Detail
}

// ---------------------------------------------------------------------------
// scheduler

// Event is an environment event the scheduler may fire instead of running a task.
type Event struct {
	Name    string
	Enabled func() bool
	Fire    func()
}

// Config configures one simulated run.
type Config struct {
	Tape     *Tape
	MaxSteps int           // step budget (default 20000)
	MaxSim   time.Duration // fake-time budget for idle clock advances (default 2h)
	Trace    bool          // keep the full event log
	// ClockEvent, when true, adds "advance the fake clock" as a scheduler choice
	// even while tasks are runnable.
	ClockEvent bool
	// OnIdle, if set, is called by the scheduler when nothing is runnable, before
	// the fake clock is advanced.  It may flip harness state (e.g. cancel a
	// context the harness owns) and returns true if it did something.
	OnIdle func(s *Sched) bool
}

// Result is what Run returns.
type Result struct {
	Verdict    *Verdict
	Steps      int
	Switches   int // context switches (grant to a task other than the previous one while it was runnable)
	SimTime    time.Duration
	TraceHash  uint64
	Log        []string
	Probes     map[string]int
	Faults     map[string]int
	Leaked     []string // tasks that had not exited when the run ended (after teardown)
	StuckSites []string // for deadlock verdicts: sorted distinct sites where tasks are stuck
	TapeUsed   int
	Diverged   bool // replay tape did not match labels/arity
	TasksTotal int
}

type Sched struct {
	mu        sync.Mutex // guards tasks/byGoid/states against woken goroutines registering themselves
	tasks     []*Task
	byGoid    map[uint64]*Task
	running   *Task
	last      *Task
	tape      *Tape
	cfg       Config
	events    []*Event
	verdict   *Verdict
	stopping  bool
	steps     int
	switches  int
	seq       uint64
	start     time.Time
	thash     uint64
	log       []string
	probes    map[string]int
	faults    map[string]int
	Invariant func() // evaluated by the scheduler before every choice (root goroutine; must not lock)
	finalRan  bool
	mutexes   map[*Mutex]struct{}
	stuckSites []string
	inline     bool
}

// Run executes body as task 0 inside a fresh synctest bubble under a new
// scheduler and returns when the run is complete.  final (optional) runs as a
// further task once everything is quiescent and no verdict exists.
func Run(t *testing.T, cfg Config, body func(s *Sched), final func(s *Sched)) (res *Result) {
	if cfg.MaxSteps == 0 {
		cfg.MaxSteps = 20000
	}
	if cfg.MaxSim == 0 {
		cfg.MaxSim = 2 * time.Hour
	}
	if cfg.Tape == nil {
		cfg.Tape = NewTape(1)
	}
	s := &Sched{
		byGoid:  map[uint64]*Task{},
		tape:    cfg.Tape,
		cfg:     cfg,
		probes:  map[string]int{},
		faults:  map[string]int{},
		mutexes: map[*Mutex]struct{}{},
		thash:   14695981039346656037,
	}
	res = &Result{}
	defer func() {
		cur.Store(nil)
		if r := recover(); r != nil {
			msg := fmt.Sprint(r)
			if !strings.Contains(msg, "blocked goroutines remain") {
				// A panic in the scheduler itself is an infrastructure failure.
				if s.verdict == nil {
					s.verdict = &Verdict{Oracle: "infra", Site: "simrt", Detail: "scheduler panic: " + msg + "\n" + string(stackOf())}
				}
			}
		}
		s.fill(res)
	}()
	synctest.Test(t, func(t *testing.T) {
		s.start = time.Now()
		cur.Store(s)
		s.spawn("main", true, func() { body(s) })
		s.loop()
		s.checkStuck()
		if s.verdict == nil && final != nil {
			s.finalRan = true
			s.spawn("final", true, func() { final(s) })
			s.loop()
			s.checkStuck()
		}
		s.teardown()
	})
	return res
}

// RunInline executes body on the calling goroutine without a scheduler or a
// bubble: for engines whose simulated parties run strictly one after another
// (writer node, pipe, reader node), where the only nondeterminism is what the
// tape decides.  Hooks in instrumented code stay pass-through.
func RunInline(cfg Config, body func(s *Sched)) (res *Result) {
	if cfg.Tape == nil {
		cfg.Tape = NewTape(1)
	}
	s := &Sched{
		byGoid:  map[uint64]*Task{},
		tape:    cfg.Tape,
		cfg:     cfg,
		probes:  map[string]int{},
		faults:  map[string]int{},
		mutexes: map[*Mutex]struct{}{},
		thash:   14695981039346656037,
		inline:  true,
		start:   time.Now(),
	}
	res = &Result{}
	defer func() {
		if r := recover(); r != nil {
			st := string(stackOf())
			if s.verdict == nil {
				s.verdict = &Verdict{Oracle: "panic", Site: siteFromStack(st), Detail: fmt.Sprint(r) + "\n" + trimStack(st)}
			}
		}
		s.fill(res)
	}()
	body(s)
	return res
}

func stackOf() []byte {
	buf := make([]byte, 16<<10)
	return buf[:runtime.Stack(buf, false)]
}

func (s *Sched) fill(res *Result) {
	res.Verdict = s.verdict
	res.Steps = s.steps
	res.Switches = s.switches
	res.TraceHash = s.thash
	res.Log = s.log
	res.Probes = s.probes
	res.Faults = s.faults
	res.TapeUsed = s.tape.Used()
	res.Diverged = s.tape.Diverged()
	res.TasksTotal = len(s.tasks)
	res.StuckSites = s.stuckSites
	for _, t := range s.tasks {
		if t.state != stExited {
			res.Leaked = append(res.Leaked, t.String()+":"+t.state.String()+"@"+t.point)
		}
	}
}

// checkStuck turns "the run ended but harness tasks never finished" into a
// deadlock verdict carrying the wait-for information.
func (s *Sched) checkStuck() {
	if s.verdict != nil || !s.WorkloadPending() {
		return
	}
	stuck := s.Stuck(false)
	site := "?"
	seen := map[string]bool{}
	for _, d := range stuck {
		for _, m := range siteRe.FindAllString(d, -1) {
			if !seen[m] {
				seen[m] = true
				s.stuckSites = append(s.stuckSites, m)
			}
		}
	}
	sort.Strings(s.stuckSites)
	s.mu.Lock()
	for _, t := range s.tasks {
		if t.state == stExited || !t.Workload {
			continue
		}
		if t.state == stWaitMutex && t.waitM != nil {
			site = t.waitM.site
			break
		}
	}
	s.mu.Unlock()
	if site == "?" {
		for _, d := range stuck {
			if i := strings.Index(d, " at "); i >= 0 {
				site = d[i+4:]
				if j := strings.Index(site, " ["); j >= 0 {
					site = site[:j]
				}
				break
			}
		}
	}
	s.failLocked(&Verdict{Oracle: "deadlock", Site: site, Detail: "no task can run and no timer is pending, but operations have not completed: " + strings.Join(stuck, "; ")})
}

// ---- task creation

func (s *Sched) spawn(name string, workload bool, fn func()) *Task {
	s.mu.Lock()
	t := &Task{ID: len(s.tasks), Name: name, Workload: workload, s: s, wake: make(chan struct{}, 1), state: stRunnable, point: "start"}
	s.tasks = append(s.tasks, t)
	s.mu.Unlock()
	go func() {
		g := goid()
		s.mu.Lock()
		t.goid = g
		s.byGoid[g] = t
		s.mu.Unlock()
		<-t.wake
		defer s.exit(t)
		if t.abort {
			return
		}
		fn()
	}()
	return t
}

// exit runs deferred in the task goroutine.
func (s *Sched) exit(t *Task) {
	if r := recover(); r != nil {
		if !s.stopping {
			st := string(stackOf())
			s.failLocked(&Verdict{Oracle: "panic", Site: siteFromStack(st), Detail: fmt.Sprint(r) + "\n" + trimStack(st)})
		}
	}
	s.mu.Lock()
	t.state = stExited
	t.baton = false
	delete(s.byGoid, t.goid)
	s.mu.Unlock()
}

// Spawn starts a harness workload task.  Must be called by the baton holder
// (or from the body before scheduling starts).
func (s *Sched) Spawn(name string, fn func()) *Task { return s.spawn(name, true, fn) }

// Go is the R2 hook: `go f(x)` in instrumented code becomes simrt.Go(func(){ f(x) }).
func Go(fn func()) {
	s := cur.Load()
	if s == nil {
		go fn()
		return
	}
	if s.stopping {
		return // run is being torn down: do not start new work
	}
	s.enter("go")
	s.spawn("sut", false, fn)
}

// ---- the baton

// enter makes sure the calling goroutine holds the baton, parking it first if
// it does not (a goroutine woken inside the code under test, or an unknown
// goroutine such as a timer callback, which is adopted as a task).
func (s *Sched) enter(point string) *Task {
	g := goid()
	s.mu.Lock()
	t := s.byGoid[g]
	if t == nil {
		t = &Task{ID: len(s.tasks), Name: "adopted", s: s, wake: make(chan struct{}, 1), state: stRunning, goid: g}
		s.tasks = append(s.tasks, t)
		s.byGoid[g] = t
		s.probes["adopted_goroutine"]++
	}
	s.mu.Unlock()
	if s.stopping {
		return t
	}
	if !t.baton {
		s.park(t, stRunnable, point)
	}
	return t
}

// park gives up the baton and blocks until granted again.
func (s *Sched) park(t *Task, st tstate, point string) {
	s.mu.Lock()
	t.state = st
	t.baton = false
	t.point = point
	s.mu.Unlock()
	<-t.wake
	if t.abort {
		runtime.Goexit()
	}
}

// Yield is a schedule point (R5 and harness use).
func Yield() {
	s := cur.Load()
	if s == nil || s.stopping {
		return
	}
	t := s.enter("yield")
	s.park(t, stRunnable, "yield")
}

// YieldAt is Yield with a label (shows up in wait-for reports).
func YieldAt(point string) {
	s := cur.Load()
	if s == nil || s.stopping {
		return
	}
	t := s.enter(point)
	s.park(t, stRunnable, point)
}

// AfterWake is the R3 hook: called right after a blocking channel operation /
// WaitGroup.Wait in the code under test returns.
func AfterWake() {
	s := cur.Load()
	if s == nil || s.stopping {
		return
	}
	s.enter("wake")
}

// Block parks the calling task until cond() is true.  cond is evaluated by the
// scheduler (root goroutine) at every step and must be cheap and lock-free.
func (s *Sched) Block(key string, cond func() bool) {
	if s.stopping {
		runtime.Goexit()
	}
	t := s.enter(key)
	if cond() {
		// still a schedule point
		s.park(t, stRunnable, key)
		return
	}
	t.cond = cond
	t.condKey = key
	s.park(t, stWaitCond, key)
	t.cond = nil
}

// ---- the scheduler loop (root goroutine)

type cand struct {
	t *Task
	e *Event
}

func (s *Sched) candidates() []cand {
	var cs []cand
	s.mu.Lock()
	// current task first so that choice 0 == "no preemption"
	if s.last != nil && s.runnable(s.last) {
		cs = append(cs, cand{t: s.last})
	}
	for _, t := range s.tasks {
		if t != s.last && s.runnable(t) {
			cs = append(cs, cand{t: t})
		}
	}
	s.mu.Unlock()
	for _, e := range s.events {
		if e.Enabled == nil || e.Enabled() {
			cs = append(cs, cand{e: e})
		}
	}
	return cs
}

func (s *Sched) runnable(t *Task) bool {
	switch t.state {
	case stRunnable:
		return true
	case stWaitCond:
		return t.cond != nil && t.cond()
	}
	return false
}

func (s *Sched) loop() {
	idleSlept := time.Duration(0)
	for {
		synctest.Wait()
		s.mu.Lock()
		// Anything still marked running after quiescence is blocked inside the
		// code under test (channel op, WaitGroup, sleep) - or it exited.
		for _, t := range s.tasks {
			if t.state == stRunning {
				t.state = stBlockedSUT
				t.baton = false
			}
		}
		s.mu.Unlock()
		if s.verdict != nil {
			return
		}
		if s.Invariant != nil {
			s.Invariant()
			if s.verdict != nil {
				return
			}
		}
		cs := s.candidates()
		if len(cs) == 0 {
			// nothing to do: let fake time pass so that timers fire
			if s.idle() {
				return
			}
			if s.cfg.OnIdle != nil && s.cfg.OnIdle(s) {
				s.note("idle-hook", 0)
				continue
			}
			q := time.Millisecond
			progressed := false
			for ; q <= 1000*time.Second && idleSlept < s.cfg.MaxSim; q *= 10 {
				time.Sleep(q)
				idleSlept += q
				synctest.Wait()
				if s.anyRunnable() || s.verdict != nil {
					progressed = true
					break
				}
			}
			if !progressed {
				return // stuck: the engine decides whether this is a deadlock
			}
			s.note("clock", 0)
			continue
		}
		if s.steps >= s.cfg.MaxSteps {
			// (the stacks show where the tasks are spinning; the first line stays the signature)
			buf := make([]byte, 1<<20)
			buf = buf[:runtime.Stack(buf, true)]
			if len(buf) > 200000 {
				buf = buf[:200000]
			}
			if f := os.Getenv("VERIF_LIVELOCK_DUMP"); f != "" {
				_ = os.WriteFile(f, buf, 0o644)
			}
			states := ""
			for _, t := range s.tasks {
				states += fmt.Sprintf(" %v:%v", t, t.state)
			}
			s.failLocked(&Verdict{Oracle: "livelock", Site: "simrt", Detail: fmt.Sprintf("step budget %d exhausted\ntasks:%s\n%s", s.cfg.MaxSteps, states, buf)})
			return
		}
		s.steps++
		k := 0
		if len(cs) > 1 {
			k = s.tape.choose("sched", len(cs), kindSched)
		}
		c := cs[k]
		if c.e != nil {
			s.note("event:"+c.e.Name, k)
			c.e.Fire()
			continue
		}
		t := c.t
		if s.last != nil && t != s.last && len(cs) > 0 && cs[0].t == s.last {
			s.switches++
		}
		s.note("run", t.ID)
		s.last = t
		s.mu.Lock()
		t.state = stRunning
		t.baton = true
		s.mu.Unlock()
		t.wake <- struct{}{}
	}
}

func (s *Sched) anyRunnable() bool {
	s.mu.Lock()
	defer s.mu.Unlock()
	for _, t := range s.tasks {
		if s.runnable(t) {
			return true
		}
	}
	return false
}

// idle reports whether every task has exited.
func (s *Sched) idle() bool {
	s.mu.Lock()
	defer s.mu.Unlock()
	for _, t := range s.tasks {
		if t.state != stExited {
			return false
		}
	}
	return true
}

func (s *Sched) note(kind string, v int) {
	h := s.thash
	for i := 0; i < len(kind); i++ {
		h = (h ^ uint64(kind[i])) * 1099511628211
	}
	h = (h ^ uint64(v)) * 1099511628211
	s.thash = h
	if s.cfg.Trace {
		s.log = append(s.log, fmt.Sprintf("%06d %s %d", s.steps, kind, v))
	}
}

// teardown releases parked tasks one at a time so that they unwind
// (runtime.Goexit runs their defers) without ever running concurrently.
func (s *Sched) teardown() {
	s.stopping = true
	for iter := 0; iter < 100000; iter++ {
		synctest.Wait()
		var next *Task
		s.mu.Lock()
		for _, t := range s.tasks {
			if t.state == stRunnable || t.state == stWaitMutex || t.state == stWaitCond {
				next = t
				break
			}
		}
		if next != nil {
			next.abort = true
			next.state = stRunning
		}
		s.mu.Unlock()
		if next == nil {
			break
		}
		next.wake <- struct{}{}
	}
	synctest.Wait()
}

// ---- verdicts, logging, probes

// Fail records a verdict (first one wins) and stops the run.  When called by a
// task, that task never resumes.
func (s *Sched) Fail(oracle, site, detail string) {
	s.failLocked(&Verdict{Oracle: oracle, Site: site, Detail: detail})
	if s.stopping || s.inline {
		return
	}
	g := goid()
	s.mu.Lock()
	t := s.byGoid[g]
	s.mu.Unlock()
	if t != nil {
		// park forever (released by teardown)
		s.park(t, stWaitCond, "failed")
	}
}

func (s *Sched) failLocked(v *Verdict) {
	s.mu.Lock()
	if s.verdict == nil {
		s.verdict = v
		if s.cfg.Trace {
			s.log = append(s.log, "VERDICT "+v.String())
		}
	}
	s.mu.Unlock()
}

// Failed reports whether a verdict exists.
func (s *Sched) Failed() bool {
	s.mu.Lock()
	defer s.mu.Unlock()
	return s.verdict != nil
}

// Logf appends to the event log (only kept when tracing) and returns the
// global sequence number of the event.  It never draws from the tape.
func (s *Sched) Logf(format string, args ...interface{}) uint64 {
	s.seq++
	if s.cfg.Trace {
		s.log = append(s.log, fmt.Sprintf("%06d #%d ", s.steps, s.seq)+fmt.Sprintf(format, args...))
	}
	return s.seq
}

// Seq returns a fresh global sequence number (for history stamps).
func (s *Sched) Seq() uint64 { s.seq++; return s.seq }

// Tracing reports whether the event log is kept.
func (s *Sched) Tracing() bool { return s.cfg.Trace }

// Probe bumps a reach counter.
func (s *Sched) Probe(name string) { s.probes[name]++ }

// Faults returns the faults fired so far in this run.
func (s *Sched) Faults() map[string]int { return s.faults }

// Fault records that a fault of the given kind actually fired.
func (s *Sched) Fault(kind string) { s.faults[kind]++; s.note("fault:"+kind, 0) }

// Choice draws a decision from the tape: 0 is the unsurprising choice.
func (s *Sched) Choice(label string, n int) int {
	if n <= 1 {
		return 0
	}
	return s.tape.choose(label, n, kindData)
}

// Chance draws a biased boolean: true with probability about num/den in
// generation mode; recorded as a 0/1 choice (0 = false).
func (s *Sched) Chance(label string, num, den int) bool {
	return s.tape.chooseBiased(label, num, den)
}

// AddEvent registers an environment event.
func (s *Sched) AddEvent(name string, enabled func() bool, fire func()) {
	s.events = append(s.events, &Event{Name: name, Enabled: enabled, Fire: fire})
}

// Now returns fake time elapsed since the run started.
func (s *Sched) Now() time.Duration { return time.Since(s.start) }

// Steps returns the number of scheduling steps so far.
func (s *Sched) Steps() int { return s.steps }

// Sleep lets the calling task sleep for d of fake time (durably blocked), then
// re-enter under the baton.
func (s *Sched) Sleep(d time.Duration) {
	time.Sleep(d)
	AfterWake()
}

// Stuck describes every task that has not exited: used for deadlock verdicts.
func (s *Sched) Stuck(onlyWorkload bool) []string {
	var out []string
	var dump string
	s.mu.Lock()
	defer s.mu.Unlock()
	for _, t := range s.tasks {
		if t.state == stExited || (onlyWorkload && !t.Workload) {
			continue
		}
		d := t.String() + " " + t.state.String()
		switch t.state {
		case stWaitMutex:
			if t.waitM != nil {
				h := "?"
				if t.waitM.holder != nil {
					h = t.waitM.holder.String()
				}
				d += fmt.Sprintf(" mutex held by %s (locked at %s)", h, t.waitM.site)
			}
		case stWaitCond:
			d += " " + t.condKey
		case stBlockedSUT:
			if dump == "" {
				for sz := 1 << 20; ; sz *= 4 {
					buf := make([]byte, sz)
					n := runtime.Stack(buf, true)
					if n < sz || sz >= 256<<20 {
						dump = string(buf[:n])
						break
					}
				}
			}
			d += " at " + siteOfGoroutine(dump, t.goid) + " [" + framesOfGoroutine(dump, t.goid) + "]"
		}
		out = append(out, d)
	}
	return out
}

// HeldMutexes lists simulated mutexes that are currently held, with holder and site.
func (s *Sched) HeldMutexes() []string {
	var out []string
	for m := range s.mutexes {
		if m.held {
			h := "?"
			if m.holder != nil {
				h = m.holder.String()
			}
			out = append(out, fmt.Sprintf("held by %s locked at %s", h, m.site))
		}
	}
	sort.Strings(out)
	return out
}

// WorkloadPending reports whether some harness task has not exited.
func (s *Sched) WorkloadPending() bool {
	s.mu.Lock()
	defer s.mu.Unlock()
	for _, t := range s.tasks {
		if t.Workload && t.state != stExited {
			return true
		}
	}
	return false
}

// SUTPending lists code-under-test goroutines (started through Go) that have not exited.
func (s *Sched) SUTPending() int {
	s.mu.Lock()
	defer s.mu.Unlock()
	n := 0
	for _, t := range s.tasks {
		if !t.Workload && t.state != stExited {
			n++
		}
	}
	return n
}

// ---------------------------------------------------------------------------
// Mutex / Once (R1)

// Mutex replaces sync.Mutex in instrumented code.
type Mutex struct {
	real   sync.Mutex
	held   bool
	holder *Task
	site   string
}

func (m *Mutex) Lock() {
	s := cur.Load()
	if s == nil {
		m.real.Lock()
		return
	}
	if s.stopping {
		return
	}
	t := s.enter("lock")
	s.park(t, stRunnable, "lock") // schedule point before every acquisition
	for m.held {
		t.waitM = m
		s.park(t, stWaitMutex, "lock-wait")
	}
	t.waitM = nil
	m.held = true
	m.holder = t
	m.site = callerSite(2)
	t.held++
	s.mutexes[m] = struct{}{}
}

func (m *Mutex) Unlock() {
	s := cur.Load()
	if s == nil {
		m.real.Unlock()
		return
	}
	if s.stopping {
		m.held = false
		return
	}
	s.enter("unlock")
	if !m.held {
		s.Fail("unlock_of_unlocked_mutex", callerSite(2), "sync: unlock of unlocked mutex (fatal error in the real runtime)")
		return
	}
	if m.holder != nil {
		m.holder.held--
	}
	m.held = false
	m.holder = nil
	s.mu.Lock()
	for _, t := range s.tasks {
		if t.state == stWaitMutex && t.waitM == m {
			t.state = stRunnable
		}
	}
	s.mu.Unlock()
}

// TryLock mirrors sync.Mutex.TryLock.
func (m *Mutex) TryLock() bool {
	s := cur.Load()
	if s == nil {
		return m.real.TryLock()
	}
	if s.stopping {
		return true
	}
	t := s.enter("trylock")
	if m.held {
		return false
	}
	m.held = true
	m.holder = t
	m.site = callerSite(2)
	t.held++
	s.mutexes[m] = struct{}{}
	return true
}

// Once replaces sync.Once in instrumented code.
type Once struct {
	real sync.Once
	done bool
	m    Mutex
}

func (o *Once) Do(f func()) {
	s := cur.Load()
	if s == nil || s.stopping {
		// pass-through; o.done keeps both modes consistent for objects that
		// outlive a simulated run (process-wide registries)
		o.real.Do(func() {
			if !o.done {
				defer func() { o.done = true }()
				f()
			}
		})
		return
	}
	if o.done {
		return
	}
	o.m.Lock()
	defer o.m.Unlock()
	if !o.done {
		defer func() {
			o.done = true
			o.real.Do(func() {})
		}()
		f()
	}
}

// ---------------------------------------------------------------------------
// channels (R3, R4)

// Recv replaces a blocking receive expression `<-ch` outside select.
func Recv[T any](ch <-chan T) T {
	v := <-ch
	AfterWake()
	return v
}

// Recv2 replaces `v, ok := <-ch`.
func Recv2[T any](ch <-chan T) (T, bool) {
	v, ok := <-ch
	AfterWake()
	return v, ok
}

// Select replaces a blocking select whose cases are all value-less receives.
// Ready cases are probed one at a time starting at a tape-chosen offset, so
// the runtime's random choice among ready cases never happens.
func Select(chs ...interface{}) int {
	s := cur.Load()
	n := len(chs)
	cases := make([]reflect.SelectCase, n)
	for i, c := range chs {
		cases[i] = reflect.SelectCase{Dir: reflect.SelectRecv, Chan: reflect.ValueOf(c)}
	}
	if s == nil || s.stopping {
		i, _, _ := reflect.Select(cases)
		return i
	}
	s.enter("select")
	off := 0
	if n > 1 {
		off = s.tape.choose("select", n, kindSelect)
	}
	probe := make([]reflect.SelectCase, 2)
	probe[1] = reflect.SelectCase{Dir: reflect.SelectDefault}
	for j := 0; j < n; j++ {
		i := (off + j) % n
		if !cases[i].Chan.IsValid() || cases[i].Chan.IsNil() {
			continue
		}
		probe[0] = cases[i]
		if k, _, _ := reflect.Select(probe); k == 0 {
			return i
		}
	}
	i, _, ok := reflect.Select(cases)
	AfterWake()
	if !ok {
		// Woken by a close: nothing was consumed.  When several cases are ready
		// now (the same channel listed twice, or channels closed together by one
		// cancellation) the runtime's pick among them is random; choose again in
		// the tape's order so that the run replays.
		for j := 0; j < n; j++ {
			k := (off + j) % n
			if !cases[k].Chan.IsValid() || cases[k].Chan.IsNil() {
				continue
			}
			probe[0] = cases[k]
			if sel, _, _ := reflect.Select(probe); sel == 0 {
				return k
			}
		}
	}
	return i
}

// ---------------------------------------------------------------------------
// atomics (R5): schedule point before the operation

func AtomicLoadUint64(p *uint64) uint64 { Yield(); return atomic.LoadUint64(p) }
func AtomicStoreUint64(p *uint64, v uint64) {
	Yield()
	atomic.StoreUint64(p, v)
}
func AtomicAddUint64(p *uint64, d uint64) uint64 { Yield(); return atomic.AddUint64(p, d) }
func AtomicCompareAndSwapUint64(p *uint64, o, n uint64) bool {
	Yield()
	return atomic.CompareAndSwapUint64(p, o, n)
}
func AtomicSwapUint64(p *uint64, n uint64) uint64 { Yield(); return atomic.SwapUint64(p, n) }
func AtomicLoadInt64(p *int64) int64             { Yield(); return atomic.LoadInt64(p) }
func AtomicStoreInt64(p *int64, v int64) {
	Yield()
	atomic.StoreInt64(p, v)
}
func AtomicAddInt64(p *int64, d int64) int64 { Yield(); return atomic.AddInt64(p, d) }
func AtomicCompareAndSwapInt64(p *int64, o, n int64) bool {
	Yield()
	return atomic.CompareAndSwapInt64(p, o, n)
}
func AtomicSwapInt64(p *int64, n int64) int64  { Yield(); return atomic.SwapInt64(p, n) }
func AtomicLoadUint32(p *uint32) uint32       { Yield(); return atomic.LoadUint32(p) }
func AtomicStoreUint32(p *uint32, v uint32) {
	Yield()
	atomic.StoreUint32(p, v)
}
func AtomicAddUint32(p *uint32, d uint32) uint32 { Yield(); return atomic.AddUint32(p, d) }
func AtomicCompareAndSwapUint32(p *uint32, o, n uint32) bool {
	Yield()
	return atomic.CompareAndSwapUint32(p, o, n)
}
func AtomicSwapUint32(p *uint32, n uint32) uint32 { Yield(); return atomic.SwapUint32(p, n) }
func AtomicLoadInt32(p *int32) int32             { Yield(); return atomic.LoadInt32(p) }
func AtomicStoreInt32(p *int32, v int32) {
	Yield()
	atomic.StoreInt32(p, v)
}
func AtomicAddInt32(p *int32, d int32) int32 { Yield(); return atomic.AddInt32(p, d) }
func AtomicCompareAndSwapInt32(p *int32, o, n int32) bool {
	Yield()
	return atomic.CompareAndSwapInt32(p, o, n)
}
func AtomicSwapInt32(p *int32, n int32) int32 { Yield(); return atomic.SwapInt32(p, n) }

// ---------------------------------------------------------------------------
// maps (R6)

// SortedKeys returns the keys of m in a deterministic order.
func SortedKeys[M ~map[K]V, K comparable, V any](m M) []K {
	keys := make([]K, 0, len(m))
	for k := range m {
		keys = append(keys, k)
	}
	if len(keys) < 2 {
		return keys
	}
	sort.Slice(keys, func(i, j int) bool { return lessAny(reflect.ValueOf(keys[i]), reflect.ValueOf(keys[j])) })
	return keys
}

func lessAny(a, b reflect.Value) bool {
	switch a.Kind() {
	case reflect.Int, reflect.Int8, reflect.Int16, reflect.Int32, reflect.Int64:
		return a.Int() < b.Int()
	case reflect.Uint, reflect.Uint8, reflect.Uint16, reflect.Uint32, reflect.Uint64, reflect.Uintptr:
		return a.Uint() < b.Uint()
	case reflect.String:
		return a.String() < b.String()
	case reflect.Float32, reflect.Float64:
		return a.Float() < b.Float()
	case reflect.Bool:
		return !a.Bool() && b.Bool()
	case reflect.Struct:
		for i := 0; i < a.NumField(); i++ {
			if lessAny(a.Field(i), b.Field(i)) {
				return true
			}
			if lessAny(b.Field(i), a.Field(i)) {
				return false
			}
		}
		return false
	case reflect.Array:
		for i := 0; i < a.Len(); i++ {
			if lessAny(a.Index(i), b.Index(i)) {
				return true
			}
			if lessAny(b.Index(i), a.Index(i)) {
				return false
			}
		}
		return false
	case reflect.Interface:
		if a.IsNil() || b.IsNil() {
			return a.IsNil() && !b.IsNil()
		}
		if a.Elem().Type() != b.Elem().Type() {
			return a.Elem().Type().String() < b.Elem().Type().String()
		}
		return lessAny(a.Elem(), b.Elem())
	}
	// pointers, channels: no deterministic order available
	if s := cur.Load(); s != nil {
		s.probes["unordered_map_key_kind_"+a.Kind().String()]++
	}
	return fmt.Sprint(a.Interface()) < fmt.Sprint(b.Interface())
}

// ---------------------------------------------------------------------------
// helpers

func goid() uint64 {
	var buf [64]byte
	n := runtime.Stack(buf[:], false)
	// "goroutine 123 [running]:..."
	var id uint64
	for i := len("goroutine "); i < n; i++ {
		c := buf[i]
		if c < '0' || c > '9' {
			break
		}
		id = id*10 + uint64(c-'0')
	}
	return id
}

var siteRe = regexp.MustCompile(`[A-Za-z0-9_]+\.go:[^ ;)]+\)?[A-Za-z0-9_.]*`)

const modPrefix = "capnproto.org/go/capnp/v3"

// callerSite returns "file.go:Func" of the first caller frame outside simrt.
func callerSite(skip int) string {
	pcs := make([]uintptr, 16)
	n := runtime.Callers(skip, pcs)
	frames := runtime.CallersFrames(pcs[:n])
	for {
		f, more := frames.Next()
		if f.Function != "" && !strings.Contains(f.Function, "/simrt.") {
			return frameSite(f.File, f.Function)
		}
		if !more {
			break
		}
	}
	return "?"
}

func frameSite(file, fn string) string {
	if i := strings.LastIndexByte(file, '/'); i >= 0 {
		file = file[i+1:]
	}
	if i := strings.LastIndexByte(fn, '/'); i >= 0 {
		fn = fn[i+1:]
	}
	if i := strings.IndexByte(fn, '.'); i >= 0 {
		fn = fn[i+1:] // drop the package qualifier
	}
	return file + ":" + fn
}

// siteFromStack extracts the innermost frame of library code (module
// capnproto.org/go/capnp/v3, excluding simrt) from a runtime.Stack dump.
func siteFromStack(st string) string {
	lines := strings.Split(st, "\n")
	first := ""
	for i := 0; i+1 < len(lines); i++ {
		l := lines[i]
		if strings.HasPrefix(l, "\t") || l == "" || strings.HasPrefix(l, "goroutine ") {
			continue
		}
		fn := l
		if j := strings.LastIndexByte(fn, '('); j > 0 {
			fn = fn[:j]
		}
		if strings.HasPrefix(fn, "panic") || strings.HasPrefix(fn, "runtime.") || strings.HasPrefix(fn, "runtime/") || strings.Contains(fn, "/simrt.") || strings.HasPrefix(fn, "created by") {
			continue
		}
		file := strings.TrimSpace(lines[i+1])
		if j := strings.LastIndexByte(file, ':'); j > 0 {
			file = file[:j]
		}
		site := frameSite(file, fn)
		if first == "" {
			first = site
		}
		if strings.HasPrefix(fn, modPrefix) {
			return site
		}
	}
	if first != "" {
		return first
	}
	return "?"
}

func trimStack(st string) string {
	lines := strings.Split(st, "\n")
	if len(lines) > 40 {
		lines = lines[:40]
	}
	return strings.Join(lines, "\n")
}

// framesOfGoroutine lists the library frames of a goroutine, innermost first.
func framesOfGoroutine(dump string, g uint64) string {
	hdr := fmt.Sprintf("goroutine %d [", g)
	i := strings.Index(dump, hdr)
	if i < 0 {
		return "?"
	}
	rest := dump[i:]
	if j := strings.Index(rest, "\n\n"); j >= 0 {
		rest = rest[:j]
	}
	var out []string
	for _, l := range strings.Split(rest, "\n") {
		if strings.HasPrefix(l, "\t") || strings.HasPrefix(l, "goroutine ") || l == "" {
			continue
		}
		fn := l
		if j := strings.LastIndexByte(fn, '('); j > 0 {
			fn = fn[:j]
		}
		if !strings.HasPrefix(fn, modPrefix) || strings.Contains(fn, "/simrt.") {
			continue
		}
		if k := strings.LastIndexByte(fn, '/'); k >= 0 {
			fn = fn[k+1:]
		}
		out = append(out, fn)
		if len(out) >= 10 {
			break
		}
	}
	return strings.Join(out, " < ")
}

func siteOfGoroutine(dump string, g uint64) string {
	hdr := fmt.Sprintf("goroutine %d [", g)
	i := strings.Index(dump, hdr)
	if i < 0 {
		return "?"
	}
	rest := dump[i:]
	if j := strings.Index(rest, "\n\n"); j >= 0 {
		rest = rest[:j]
	}
	return siteFromStack(rest)
}

// Hash64 is a small helper for engines (FNV-1a).
func Hash64(parts ...string) uint64 {
	h := fnv.New64a()
	for _, p := range parts {
		h.Write([]byte(p))
		h.Write([]byte{0})
	}
	return h.Sum64()
}

// WGWait replaces wg.Wait() on a sync.WaitGroup in instrumented code.
func WGWait(wg *sync.WaitGroup) {
	wg.Wait()
	AfterWake()
}
