package rpc

// SimView is a read-only view of a Conn's tables added to the scratch copy by
// /verif (rule R7).
type SimView struct {
	Questions, Answers, Exports, Imports, Embargoes int
	SenderLocked, Closed                           bool
}

// SimView reports table occupancy.
func (c *Conn) SimView() SimView {
	c.mu.Lock()
	defer c.mu.Unlock()
	var v SimView
	for _, q := range c.questions {
		if q != nil {
			v.Questions++
		}
	}
	for _, a := range c.answers {
		if a != nil {
			v.Answers++
		}
	}
	for _, e := range c.exports {
		if e != nil {
			v.Exports++
		}
	}
	v.Imports = len(c.imports)
	for _, e := range c.embargoes {
		if e != nil {
			v.Embargoes++
		}
	}
	v.SenderLocked = c.sendCond != nil
	v.Closed = c.closed
	return v
}
