package capnp

import "sync/atomic"

// SimReadLimit is a read-only view added to the scratch copy by /verif
// (rule R7): the traversal budget currently left in the message.
func (m *Message) SimReadLimit() uint64 {
	m.rlimitInit.Do(m.initReadLimit)
	return atomic.LoadUint64(&m.rlimit)
}
