module verifh

go 1.26

require (
	capnproto.org/go/capnp/v3 v3.0.0
	github.com/anishathalye/porcupine v1.3.0
)

replace capnproto.org/go/capnp/v3 => /repo
