// Package simio provides the simulated byte pipes (reader/writer seams) whose
// chunking and faults are decided by the choice tape.
package simio

import (
	"errors"
	"io"
)

// ErrInjected is the error returned by injected read/write faults.
var ErrInjected = errors.New("simio: injected I/O error")

// Reader serves Data in chunks.  Chunk returns the maximum size of the next
// read (<=0 means no limit).  If ErrAt >= 0 the read that reaches offset ErrAt
// returns the bytes before it, and the following read returns Err.  After
// Data is exhausted Read returns io.EOF (or Err when ErrAt == len(Data)).
type Reader struct {
	Data      []byte
	Pos       int
	Chunk     func() int
	ErrAt     int
	Err       error
	ZeroRead  func() bool // if non-nil and returns true, the read returns (0, nil) once
	lastZero  bool
	Reads     int
	ZeroReads int
	Fired     bool
}

// NewReader returns a reader over data with no faults.
func NewReader(data []byte) *Reader { return &Reader{Data: data, ErrAt: -1} }

func (r *Reader) Read(p []byte) (int, error) {
	r.Reads++
	if len(p) == 0 {
		return 0, nil
	}
	if r.ErrAt >= 0 && r.Pos >= r.ErrAt {
		r.Fired = true
		if r.Err == nil {
			return 0, ErrInjected
		}
		return 0, r.Err
	}
	if r.Pos >= len(r.Data) {
		return 0, io.EOF
	}
	if r.ZeroRead != nil && !r.lastZero && r.ZeroRead() {
		r.lastZero = true
		r.ZeroReads++
		return 0, nil
	}
	r.lastZero = false
	n := len(p)
	if r.Chunk != nil {
		if c := r.Chunk(); c > 0 && c < n {
			n = c
		}
	}
	if rem := len(r.Data) - r.Pos; rem < n {
		n = rem
	}
	if r.ErrAt >= 0 && r.ErrAt-r.Pos < n {
		n = r.ErrAt - r.Pos
	}
	copy(p, r.Data[r.Pos:r.Pos+n])
	r.Pos += n
	return n, nil
}

// Writer records everything written.  Plan, if non-nil, is consulted on every
// Write and returns how many bytes to accept and the error to return
// (accept < len(p) requires a non-nil error, per the io.Writer contract).
type Writer struct {
	Buf    []byte
	Writes int
	Plan   func(w *Writer, p []byte) (accept int, err error)
	Log    []WriteRec
}

// WriteRec records one Write call.
type WriteRec struct {
	Off, Len, Accepted int
	Err               bool
}

func (w *Writer) Write(p []byte) (int, error) {
	w.Writes++
	n, err := len(p), error(nil)
	if w.Plan != nil {
		n, err = w.Plan(w, p)
		if n > len(p) {
			n = len(p)
		}
		if n < 0 {
			n = 0
		}
	}
	w.Log = append(w.Log, WriteRec{Off: len(w.Buf), Len: len(p), Accepted: n, Err: err != nil})
	w.Buf = append(w.Buf, p[:n]...)
	return n, err
}
