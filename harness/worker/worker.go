// Package worker is the common main loop of every simulation engine's test
// binary: batch exploration, replay, tape minimisation and determinism dumps.
// It is driven by environment variables set by /verif/bin/check.
package worker

import (
	"encoding/json"
	"fmt"
	"os"
	"path/filepath"
	"regexp"
	"runtime"
	"runtime/debug"
	"sort"
	"strconv"
	"strings"
	"testing"
	"time"

	"capnproto.org/go/capnp/v3/simrt"
)

// Options is what an engine gets for one run.
type Options struct {
	Property string // property id whose oracle set / workload bias is wanted
	Trace    bool
	Tier     string
	Avoid    map[string]bool // known-finding avoidance guards that are active
	Params   map[string]string
}

// Outcome is what an engine returns for one run.
type Outcome struct {
	Res        *simrt.Result
	Verdict    *simrt.Verdict // nil = property held on this run
	NonTrivial bool           // by the engine's stated rule
	Key        uint64         // distinctness key (e.g. schedule/fault trace hash)
	StateKeys  []uint64       // abstract states reached (for distinct_states)
	Sample     interface{}    // small description of the run for evidence samples
	Ops        int
	SimTime    time.Duration
	Probes     map[string]int
	Faults     map[string]int
	Pattern    string // engine-specific classification of a violation, for known-finding matching
	// ReplayTape / ReplayParams, when set, replace the batch tape and parameters in the replay
	// file (engines that derive several cases from one seed, e.g. per-operation fault sweeps).
	ReplayTape   []simrt.Rec
	ReplayParams map[string]string
}

// Engine is implemented by each simulation engine.
type Engine interface {
	Name() string
	// Run executes one simulated run decided entirely by tape.
	Run(t *testing.T, tape *simrt.Tape, opt Options) *Outcome
}

// Replay is the on-disk replay file.
type Replay struct {
	Property  string            `json:"property"`
	Engine    string            `json:"engine"`
	Format    int               `json:"format"`
	Seed      uint64            `json:"seed"`
	Params    map[string]string `json:"params,omitempty"`
	Avoid     []string          `json:"avoid,omitempty"`
	Tape      [][3]int64        `json:"tape"`
	Faults    map[string]int    `json:"faults_fired,omitempty"`
	Violation *simrt.Verdict    `json:"violation"`
	Pattern   string            `json:"pattern,omitempty"`
	TraceHash string            `json:"trace_hash"`
	Steps     int               `json:"steps"`
	Minimised bool              `json:"minimised"`
	Log       []string          `json:"log,omitempty"`
}

func tapeToJSON(recs []simrt.Rec) [][3]int64 {
	out := make([][3]int64, len(recs))
	for i, r := range recs {
		out[i] = [3]int64{int64(r.L), int64(r.N), int64(r.V)}
	}
	return out
}

func tapeFromJSON(in [][3]int64) []simrt.Rec {
	out := make([]simrt.Rec, len(in))
	for i, r := range in {
		out[i] = simrt.Rec{L: uint32(r[0]), N: int(r[1]), V: int(r[2])}
	}
	return out
}

// Summary is the per-worker aggregate written at the end of a batch.
// Known is one entry of /verif/known_findings.json.
type Known struct {
	Property  string `json:"property"`
	Status    string `json:"status"`
	Signature struct {
		Oracle  string `json:"oracle"`
		Site    string `json:"site"`
		Pattern string `json:"pattern"`
	} `json:"signature"`
	What string `json:"what"`
	re   *regexp.Regexp
}

func loadKnown(prop string) []*Known {
	path := os.Getenv("VERIF_KNOWN")
	if path == "" {
		return nil
	}
	b, err := os.ReadFile(path)
	if err != nil {
		return nil
	}
	var all []*Known
	if err := json.Unmarshal(b, &all); err != nil {
		fmt.Fprintln(os.Stderr, "worker: bad known findings file:", err)
		os.Exit(4)
	}
	var out []*Known
	for _, k := range all {
		if k.Status == "known" && k.Property == prop {
			if k.Signature.Pattern != "" {
				k.re = regexp.MustCompile(k.Signature.Pattern)
			}
			out = append(out, k)
		}
	}
	return out
}

func matchKnown(ks []*Known, v *simrt.Verdict, pattern string) *Known {
	for _, k := range ks {
		if k.Signature.Oracle != "" && k.Signature.Oracle != v.Oracle {
			continue
		}
		if k.Signature.Site != "" && k.Signature.Site != v.Site {
			continue
		}
		if k.re != nil && !k.re.MatchString(pattern+"\n"+v.Detail) {
			continue
		}
		return k
	}
	return nil
}

type Summary struct {
	KnownHits   map[string]int `json:"known_hits"`
	KnownFiles  []string       `json:"known_files"`
	Worker      int            `json:"worker"`
	Runs        int            `json:"runs"`
	NonTrivial  int            `json:"nontrivial"`
	Keys        []uint64       `json:"keys"`
	StateKeys   []uint64       `json:"state_keys"`
	Steps       int64          `json:"steps"`
	Ops         int64          `json:"ops"`
	SimTimeNs   int64          `json:"sim_time_ns"`
	Probes      map[string]int `json:"probes"`
	Faults      map[string]int `json:"faults"`
	Samples     []interface{}  `json:"samples"`
	Violations  []string       `json:"violations"` // replay file paths
	WallS       float64        `json:"wall_s"`
	FirstSeed   uint64         `json:"first_seed"`
	LastSeed    uint64         `json:"last_seed"`
	Diverged    int            `json:"diverged"`
	MaxSteps    int            `json:"max_steps"`
	SwitchesSum int64          `json:"switches"`
}

func envInt(name string, def int64) int64 {
	if v := os.Getenv(name); v != "" {
		n, err := strconv.ParseInt(v, 10, 64)
		if err == nil {
			return n
		}
	}
	return def
}

func mix(a, b uint64) uint64 {
	x := a ^ (b+0x9e3779b97f4a7c15)*0xbf58476d1ce4e5b9
	x ^= x >> 30
	x *= 0xbf58476d1ce4e5b9
	x ^= x >> 27
	x *= 0x94d049bb133111eb
	x ^= x >> 31
	return x
}

func parseOpts() Options {
	o := Options{
		Property: os.Getenv("VERIF_PROPERTY"),
		Tier:     os.Getenv("VERIF_TIER"),
		Avoid:    map[string]bool{},
		Params:   map[string]string{},
	}
	for _, a := range strings.Split(os.Getenv("VERIF_AVOID"), ",") {
		if a != "" {
			o.Avoid[a] = true
		}
	}
	for _, kv := range strings.Split(os.Getenv("VERIF_PARAMS"), ",") {
		if i := strings.IndexByte(kv, '='); i > 0 {
			o.Params[kv[:i]] = kv[i+1:]
		}
	}
	return o
}

// Main is called from each engine's TestWorker.
func Main(t *testing.T, e Engine) {
	debug.SetMaxStack(256 << 20)
	mode := os.Getenv("VERIF_MODE")
	switch mode {
	case "":
		t.Skip("VERIF_MODE not set (run through /verif/bin/check)")
	case "batch":
		batch(t, e)
	case "replay":
		replay(t, e)
	case "minimize":
		minimize(t, e)
	case "determinism":
		determinism(t, e)
	default:
		fmt.Fprintf(os.Stderr, "worker: unknown VERIF_MODE %q\n", mode)
		os.Exit(4)
	}
}

func batch(t *testing.T, e Engine) {
	opt := parseOpts()
	base := uint64(envInt("VERIF_SEED", 1))
	widx := int(envInt("VERIF_WORKER", 0))
	stride := int(envInt("VERIF_WORKERS", 1))
	budget := time.Duration(envInt("VERIF_BUDGET_MS", 10000)) * time.Millisecond
	maxRuns := int(envInt("VERIF_MAXRUNS", 1<<40))
	maxViol := int(envInt("VERIF_MAXVIOL", 3))
	watchdog := time.Duration(envInt("VERIF_WATCHDOG_S", 30)) * time.Second
	out := os.Getenv("VERIF_OUT")
	if out == "" {
		fmt.Fprintln(os.Stderr, "worker: VERIF_OUT required")
		os.Exit(4)
	}
	journal, err := os.OpenFile(filepath.Join(out, fmt.Sprintf("journal-%d.txt", widx)), os.O_CREATE|os.O_WRONLY|os.O_TRUNC, 0o644)
	if err != nil {
		fmt.Fprintln(os.Stderr, "worker:", err)
		os.Exit(4)
	}
	defer journal.Close()
	sum := &Summary{Worker: widx, Probes: map[string]int{}, Faults: map[string]int{}, KnownHits: map[string]int{}}
	known := loadKnown(opt.Property)
	keys := map[uint64]struct{}{}
	skeys := map[uint64]struct{}{}
	seenViol := map[string]bool{}
	start := time.Now()
	// The budget is wall-clock time, but a loaded machine must not silently shrink the search:
	// the worker keeps going until it has done its share of the check's minimum number of runs
	// (never beyond five times the budget).
	minRuns := int(envInt("VERIF_MINRUNS", 0))
	for i := 0; i < maxRuns; i++ {
		if el := time.Since(start); el > budget && (i >= minRuns || el > 5*budget) {
			break
		}
		idx := uint64(widx + i*stride)
		seed := mix(base, idx)
		fmt.Fprintf(journal, "START %d\n", seed)
		if sum.Runs == 0 {
			sum.FirstSeed = seed
		}
		sum.LastSeed = seed
		tape := simrt.NewTape(seed)
		wd := time.AfterFunc(watchdog, func() {
			fmt.Fprintf(os.Stderr, "WATCHDOG seed=%d ran longer than %v\n", seed, watchdog)
			buf := make([]byte, 1<<16)
			os.Stderr.Write(buf[:runtime.Stack(buf, true)])
			os.Exit(5)
		})
		oc := e.Run(t, tape, opt)
		wd.Stop()
		sum.Runs++
		if oc.Res != nil {
			sum.Steps += int64(oc.Res.Steps)
			sum.SwitchesSum += int64(oc.Res.Switches)
			if oc.Res.Steps > sum.MaxSteps {
				sum.MaxSteps = oc.Res.Steps
			}
		}
		sum.Ops += int64(oc.Ops)
		sum.SimTimeNs += int64(oc.SimTime)
		for k, v := range oc.Probes {
			sum.Probes[k] += v
		}
		for k, v := range oc.Faults {
			sum.Faults[k] += v
		}
		if oc.NonTrivial {
			sum.NonTrivial++
			if len(keys) < 4_000_000 {
				keys[oc.Key] = struct{}{}
			}
		}
		for _, k := range oc.StateKeys {
			if len(skeys) < 4_000_000 {
				skeys[k] = struct{}{}
			}
		}
		if len(sum.Samples) < 3 && oc.Sample != nil && (oc.NonTrivial || i > 20) {
			sum.Samples = append(sum.Samples, map[string]interface{}{"seed": seed, "run": oc.Sample})
		}
		if oc.Verdict != nil {
			sig := oc.Verdict.Oracle + "|" + oc.Verdict.Site + "|" + oc.Pattern
			if oc.Verdict.Oracle == "infra" {
				fmt.Fprintf(os.Stderr, "worker: infrastructure failure seed=%d: %s\n", seed, oc.Verdict)
				os.Exit(4)
			}
			kn := matchKnown(known, oc.Verdict, oc.Pattern)
			if kn != nil {
				sum.KnownHits[kn.What]++
			}
			if !seenViol[sig] && (kn == nil || sum.KnownHits[kn.What] == 1) {
				seenViol[sig] = true
				rp := &Replay{
					Property: opt.Property, Engine: e.Name(), Format: 1, Seed: seed, Params: opt.Params,
					Tape: tapeToJSON(tape.Records()), Violation: oc.Verdict, Pattern: oc.Pattern,
					Faults: oc.Faults,
				}
				if oc.ReplayTape != nil {
					rp.Tape = tapeToJSON(oc.ReplayTape)
				}
				if oc.ReplayParams != nil {
					rp.Params = map[string]string{}
					for k, v := range opt.Params {
						rp.Params[k] = v
					}
					for k, v := range oc.ReplayParams {
						rp.Params[k] = v
					}
				}
				for a := range opt.Avoid {
					rp.Avoid = append(rp.Avoid, a)
				}
				sort.Strings(rp.Avoid)
				if oc.Res != nil {
					rp.TraceHash = fmt.Sprintf("%016x", oc.Res.TraceHash)
					rp.Steps = oc.Res.Steps
				}
				path := filepath.Join(out, fmt.Sprintf("viol-%d-%d.json", widx, len(sum.Violations)))
				if kn != nil {
					path = filepath.Join(out, fmt.Sprintf("known-%d-%d.json", widx, len(sum.KnownFiles)))
					writeJSON(path, rp)
					sum.KnownFiles = append(sum.KnownFiles, path)
				} else {
					writeJSON(path, rp)
					sum.Violations = append(sum.Violations, path)
					if len(sum.Violations) >= maxViol {
						break
					}
				}
			}
		}
		fmt.Fprintf(journal, "END %d\n", seed)
		if sum.Runs%2000 == 0 {
			runtime.GC()
		}
	}
	sum.WallS = time.Since(start).Seconds()
	for k := range keys {
		sum.Keys = append(sum.Keys, k)
	}
	for k := range skeys {
		sum.StateKeys = append(sum.StateKeys, k)
	}
	writeJSON(filepath.Join(out, fmt.Sprintf("summary-%d.json", widx)), sum)
}

func writeJSON(path string, v interface{}) {
	b, err := json.MarshalIndent(v, "", " ")
	if err != nil {
		fmt.Fprintln(os.Stderr, "worker: marshal:", err)
		os.Exit(4)
	}
	if err := os.WriteFile(path, b, 0o644); err != nil {
		fmt.Fprintln(os.Stderr, "worker:", err)
		os.Exit(4)
	}
}

func loadReplay(path string) *Replay {
	b, err := os.ReadFile(path)
	if err != nil {
		fmt.Fprintln(os.Stderr, "worker:", err)
		os.Exit(4)
	}
	rp := &Replay{}
	if err := json.Unmarshal(b, rp); err != nil {
		fmt.Fprintln(os.Stderr, "worker: bad replay file:", err)
		os.Exit(4)
	}
	return rp
}

func optsFor(rp *Replay) Options {
	opt := parseOpts()
	if rp.Property != "" {
		opt.Property = rp.Property
	}
	if rp.Params != nil {
		opt.Params = rp.Params
	}
	opt.Avoid = map[string]bool{}
	for _, a := range rp.Avoid {
		opt.Avoid[a] = true
	}
	return opt
}

// ReplayResult is printed (as JSON on one line prefixed by RESULT) by replay mode.
type ReplayResult struct {
	Verdict   *simrt.Verdict `json:"verdict"`
	Pattern   string         `json:"pattern"`
	Same      bool           `json:"same"` // same (oracle, site) as recorded
	TraceHash string         `json:"trace_hash"`
	Diverged  bool           `json:"diverged"`
	Steps     int            `json:"steps"`
}

func replay(t *testing.T, e Engine) {
	rp := loadReplay(os.Getenv("VERIF_REPLAY"))
	opt := optsFor(rp)
	opt.Trace = os.Getenv("VERIF_TRACE") != ""
	tape := simrt.ReplayTape(tapeFromJSON(rp.Tape))
	if len(rp.Tape) == 0 && rp.Seed != 0 {
		tape = simrt.NewTape(rp.Seed) // seed-only replay (worker aborts)
	}
	oc := e.Run(t, tape, opt)
	rr := ReplayResult{Verdict: oc.Verdict, Pattern: oc.Pattern}
	if oc.Res != nil {
		rr.TraceHash = fmt.Sprintf("%016x", oc.Res.TraceHash)
		rr.Diverged = oc.Res.Diverged
		rr.Steps = oc.Res.Steps
		if opt.Trace {
			for _, l := range oc.Res.Log {
				fmt.Println("LOG", l)
			}
		}
	}
	if rp.Violation != nil && oc.Verdict != nil {
		rr.Same = rp.Violation.Oracle == oc.Verdict.Oracle && rp.Violation.Site == oc.Verdict.Site
	}
	b, _ := json.Marshal(rr)
	fmt.Println("RESULT " + string(b))
}

// minimize performs delta debugging on the tape in-process: delete chunks,
// then lower values, keeping a candidate only while the same (oracle, site)
// fires.  The minimised replay is written to VERIF_MIN_OUT.
func minimize(t *testing.T, e Engine) {
	rp := loadReplay(os.Getenv("VERIF_REPLAY"))
	opt := optsFor(rp)
	budget := time.Duration(envInt("VERIF_BUDGET_MS", 60000)) * time.Millisecond
	start := time.Now()
	want := rp.Violation
	tries := 0
	test := func(recs []simrt.Rec) (*Outcome, *simrt.Tape, bool) {
		tries++
		tape := simrt.ReplayTape(recs)
		oc := e.Run(t, tape, opt)
		ok := oc.Verdict != nil && oc.Verdict.Oracle == want.Oracle && oc.Verdict.Site == want.Site
		return oc, tape, ok
	}
	cur := tapeFromJSON(rp.Tape)
	oc, tape, ok := test(cur)
	if !ok {
		fmt.Println("MINIMIZE not-reproduced")
		os.Exit(3)
	}
	best := oc
	// normalise: what the run actually consumed
	cur = append([]simrt.Rec(nil), tape.Records()...)
	trim := func(r []simrt.Rec) []simrt.Rec {
		for len(r) > 0 && r[len(r)-1].V == 0 {
			r = r[:len(r)-1]
		}
		return r
	}
	cur = trim(cur)
	timeUp := func() bool { return time.Since(start) > budget }
	// phase 1: chunk deletion
	for chunk := len(cur) / 2; chunk >= 1 && !timeUp(); {
		removed := false
		for i := 0; i+chunk <= len(cur) && !timeUp(); {
			cand := append(append([]simrt.Rec(nil), cur[:i]...), cur[i+chunk:]...)
			if o, tp, ok := test(cand); ok {
				cur = trim(append([]simrt.Rec(nil), tp.Records()...))
				best = o
				removed = true
			} else {
				i += chunk
			}
		}
		if !removed || chunk == 1 {
			chunk /= 2
		}
	}
	// phase 2: zero / lower values
	for i := 0; i < len(cur) && !timeUp(); i++ {
		if cur[i].V == 0 {
			continue
		}
		for _, nv := range []int{0, cur[i].V / 2, cur[i].V - 1} {
			if nv >= cur[i].V || nv < 0 {
				continue
			}
			cand := append([]simrt.Rec(nil), cur...)
			cand[i].V = nv
			if o, tp, ok := test(cand); ok {
				cur = append([]simrt.Rec(nil), tp.Records()...)
				if len(cur) > len(cand) {
					// keep the full consumed tape so replay is exact
				}
				cur = trim(cur)
				best = o
				break
			}
		}
	}
	// final: run once more to obtain the exact consumed tape and log
	opt.Trace = true
	o, tp, ok := test(cur)
	if ok {
		best = o
		cur = append([]simrt.Rec(nil), tp.Records()...)
	}
	out := *rp
	out.Tape = tapeToJSON(cur)
	out.Violation = best.Verdict
	out.Pattern = best.Pattern
	out.Minimised = true
	out.Faults = best.Faults
	if best.Res != nil {
		out.TraceHash = fmt.Sprintf("%016x", best.Res.TraceHash)
		out.Steps = best.Res.Steps
		lg := best.Res.Log
		if len(lg) > 400 {
			lg = lg[len(lg)-400:]
		}
		out.Log = lg
	}
	writeJSON(os.Getenv("VERIF_MIN_OUT"), &out)
	fmt.Printf("MINIMIZE ok tries=%d tape=%d->%d\n", tries, len(rp.Tape), len(cur))
}

// determinism prints one line per seed with a hash of the complete event log.
func determinism(t *testing.T, e Engine) {
	opt := parseOpts()
	opt.Trace = true
	base := uint64(envInt("VERIF_SEED", 1))
	n := int(envInt("VERIF_MAXRUNS", 100))
	rev := os.Getenv("VERIF_DET_REVERSE") != ""
	for j := 0; j < n; j++ {
		i := j
		if rev {
			// a different position in the process' history must not change a run
			i = n - 1 - j
		}
		seed := mix(base, uint64(i))
		oc := e.Run(t, simrt.NewTape(seed), opt)
		h := uint64(0)
		if oc.Res != nil {
			h = simrt.Hash64(oc.Res.Log...)
			h ^= oc.Res.TraceHash
		}
		v := "-"
		if oc.Verdict != nil {
			v = oc.Verdict.Oracle + "@" + oc.Verdict.Site
		}
		fmt.Printf("DET %d %016x %s\n", seed, h, v)
	}
}
