// Package textlit is a small independent parser for Cap'n Proto text values
// as used by the schema language: ( name = value, ... ), [ v, ... ], "string
// literals" with C-style escapes, numbers, identifiers and <markers>.  It
// recovers field values so that a rendering can be checked for being well
// formed and faithful.
package textlit

import (
	"fmt"
)

type Kind int

const (
	Struct Kind = iota
	List
	String
	Token  // number or identifier: Raw holds the characters
	Marker // <...>
)

type Field struct {
	Name string
	V    *Value
}

type Value struct {
	Kind   Kind
	Fields []Field
	Items  []*Value
	Str    []byte
	Raw    string
}

type parser struct {
	s   []byte
	pos int
}

// Parse parses one complete value; trailing bytes are an error.
func Parse(text []byte) (*Value, error) {
	p := &parser{s: text}
	v, err := p.value()
	if err != nil {
		return nil, err
	}
	p.ws()
	if p.pos != len(p.s) {
		return nil, fmt.Errorf("textlit: %d trailing bytes at offset %d: %q", len(p.s)-p.pos, p.pos, clip(p.s[p.pos:]))
	}
	return v, nil
}

func clip(b []byte) []byte {
	if len(b) > 40 {
		return b[:40]
	}
	return b
}

func (p *parser) ws() {
	for p.pos < len(p.s) && (p.s[p.pos] == ' ' || p.s[p.pos] == '\n' || p.s[p.pos] == '\t') {
		p.pos++
	}
}

func (p *parser) errf(format string, args ...interface{}) error {
	return fmt.Errorf("textlit: offset %d: %s (near %q)", p.pos, fmt.Sprintf(format, args...), clip(p.s[p.pos:]))
}

func isTokenByte(c byte) bool {
	return c >= '0' && c <= '9' || c >= 'a' && c <= 'z' || c >= 'A' && c <= 'Z' || c == '_' || c == '.' || c == '+' || c == '-'
}

func (p *parser) value() (*Value, error) {
	p.ws()
	if p.pos >= len(p.s) {
		return nil, p.errf("unexpected end of text")
	}
	switch c := p.s[p.pos]; {
	case c == '(':
		p.pos++
		v := &Value{Kind: Struct}
		p.ws()
		if p.pos < len(p.s) && p.s[p.pos] == ')' {
			p.pos++
			return v, nil
		}
		for {
			p.ws()
			start := p.pos
			for p.pos < len(p.s) && isTokenByte(p.s[p.pos]) {
				p.pos++
			}
			if p.pos == start {
				return nil, p.errf("field name expected")
			}
			name := string(p.s[start:p.pos])
			p.ws()
			if p.pos >= len(p.s) || p.s[p.pos] != '=' {
				return nil, p.errf("'=' expected after field name %q", name)
			}
			p.pos++
			fv, err := p.value()
			if err != nil {
				return nil, err
			}
			v.Fields = append(v.Fields, Field{Name: name, V: fv})
			p.ws()
			if p.pos >= len(p.s) {
				return nil, p.errf("unterminated struct")
			}
			if p.s[p.pos] == ',' {
				p.pos++
				continue
			}
			if p.s[p.pos] == ')' {
				p.pos++
				return v, nil
			}
			return nil, p.errf("',' or ')' expected")
		}
	case c == '[':
		p.pos++
		v := &Value{Kind: List}
		p.ws()
		if p.pos < len(p.s) && p.s[p.pos] == ']' {
			p.pos++
			return v, nil
		}
		for {
			iv, err := p.value()
			if err != nil {
				return nil, err
			}
			v.Items = append(v.Items, iv)
			p.ws()
			if p.pos >= len(p.s) {
				return nil, p.errf("unterminated list")
			}
			if p.s[p.pos] == ',' {
				p.pos++
				continue
			}
			if p.s[p.pos] == ']' {
				p.pos++
				return v, nil
			}
			return nil, p.errf("',' or ']' expected")
		}
	case c == '"':
		return p.str()
	case c == '<':
		start := p.pos
		for p.pos < len(p.s) && p.s[p.pos] != '>' {
			p.pos++
		}
		if p.pos >= len(p.s) {
			return nil, p.errf("unterminated marker")
		}
		p.pos++
		return &Value{Kind: Marker, Raw: string(p.s[start:p.pos])}, nil
	case isTokenByte(c):
		start := p.pos
		for p.pos < len(p.s) && isTokenByte(p.s[p.pos]) {
			p.pos++
		}
		return &Value{Kind: Token, Raw: string(p.s[start:p.pos])}, nil
	}
	return nil, p.errf("unexpected character %q", p.s[p.pos])
}

func hexVal(c byte) int {
	switch {
	case c >= '0' && c <= '9':
		return int(c - '0')
	case c >= 'a' && c <= 'f':
		return int(c-'a') + 10
	case c >= 'A' && c <= 'F':
		return int(c-'A') + 10
	}
	return -1
}

// str parses a double-quoted literal.  Inside a literal every byte must be a
// printable ASCII character other than '"' and '\', or an escape sequence.
func (p *parser) str() (*Value, error) {
	p.pos++ // opening quote
	v := &Value{Kind: String, Str: []byte{}}
	for {
		if p.pos >= len(p.s) {
			return nil, p.errf("unterminated string literal")
		}
		c := p.s[p.pos]
		switch {
		case c == '"':
			p.pos++
			return v, nil
		case c == '\\':
			if p.pos+1 >= len(p.s) {
				return nil, p.errf("dangling backslash")
			}
			e := p.s[p.pos+1]
			p.pos += 2
			switch e {
			case 'a':
				v.Str = append(v.Str, '\a')
			case 'b':
				v.Str = append(v.Str, '\b')
			case 'f':
				v.Str = append(v.Str, '\f')
			case 'n':
				v.Str = append(v.Str, '\n')
			case 'r':
				v.Str = append(v.Str, '\r')
			case 't':
				v.Str = append(v.Str, '\t')
			case 'v':
				v.Str = append(v.Str, '\v')
			case '\'', '"', '\\', '?':
				v.Str = append(v.Str, e)
			case 'x':
				if p.pos+1 >= len(p.s) || hexVal(p.s[p.pos]) < 0 || hexVal(p.s[p.pos+1]) < 0 {
					return nil, p.errf("bad \\x escape")
				}
				v.Str = append(v.Str, byte(hexVal(p.s[p.pos])<<4|hexVal(p.s[p.pos+1])))
				p.pos += 2
			default:
				if e >= '0' && e <= '7' { // octal, up to three digits
					n := int(e - '0')
					for k := 0; k < 2 && p.pos < len(p.s) && p.s[p.pos] >= '0' && p.s[p.pos] <= '7'; k++ {
						n = n*8 + int(p.s[p.pos]-'0')
						p.pos++
					}
					v.Str = append(v.Str, byte(n))
				} else {
					return nil, p.errf("unknown escape \\%c", e)
				}
			}
		case c < 0x20 || c >= 0x7f:
			return nil, p.errf("unescaped non-printable byte %#x inside a string literal", c)
		default:
			v.Str = append(v.Str, c)
			p.pos++
		}
	}
}
