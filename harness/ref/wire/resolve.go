package wire

import (
	"encoding/binary"
	"errors"
	"fmt"
)

// Sentinel errors.  Errors returned by Decode and Validate wrap one of these
// (use errors.Is).
var (
	// ErrInvalid: the message is structurally invalid.
	ErrInvalid = errors.New("wire: invalid message")
	// ErrLimit: a Limits bound (depth, nodes, words) was exceeded.
	ErrLimit = errors.New("wire: limit exceeded")
	// ErrOverlap: Validate found two reachable objects sharing a word
	// (this includes two pointers to the same object).
	ErrOverlap = errors.New("wire: overlapping objects")
)

// ---------------------------------------------------------------------------
// Pointer word bit fields (spec: "Pointers" section).  A pointer is a 64-bit
// little-endian word; "lsb" in the spec's diagrams is bit 0.
//
//   struct:  A(2)=0  B(30)=signed offset   C(16)=data words   D(16)=ptr words
//   list:    A(2)=1  B(30)=signed offset   C(3)=elem size     D(29)=count
//   far:     A(2)=2  B(1)=double  C(29)=pad offset            D(32)=segment
//   other:   A(2)=3  B(30)=0 => capability                    C(32)=index
// ---------------------------------------------------------------------------

const (
	ptrStruct = 0
	ptrList   = 1
	ptrFar    = 2
	ptrOther  = 3
)

func ptrType(w uint64) int { return int(w & 3) }

// ptrOffset extracts the signed 30-bit B field of a struct or list pointer.
func ptrOffset(w uint64) int { return int(int32(uint32(w)) >> 2) }

// ptrUpper30 extracts the B field as an unsigned number (used for the
// composite tag's element count and for the "other" pointer's sub-kind).
func ptrUpper30(w uint64) int { return int(uint32(w) >> 2) }

func structDataWords(w uint64) int { return int(w >> 32 & 0xffff) }
func structPtrWords(w uint64) int  { return int(w >> 48) }
func listElemCode(w uint64) int    { return int(w >> 32 & 7) }
func listCountField(w uint64) int  { return int(w >> 35) }
func farIsDouble(w uint64) bool    { return w>>2&1 == 1 }
func farPadOffset(w uint64) int    { return int(uint32(w) >> 3) }
func farSegment(w uint64) uint32   { return uint32(w >> 32) }
func capIndex(w uint64) uint32     { return uint32(w >> 32) }

func getWord(seg []byte, i int) uint64 { return binary.LittleEndian.Uint64(seg[i*8:]) }
func putWord(seg []byte, i int, w uint64) {
	binary.LittleEndian.PutUint64(seg[i*8:], w)
}

// Constructors for pointer words (used by Encode and Canonical).

func mkStructPtr(offset, dataWords, ptrWords int) uint64 {
	return uint64(uint32(int32(offset))<<2) | uint64(dataWords)<<32 | uint64(ptrWords)<<48
}

func mkListPtr(offset, elem, countField int) uint64 {
	return ptrList | uint64(uint32(int32(offset))<<2) | uint64(elem)<<32 | uint64(countField)<<35
}

func mkFarPtr(double bool, padOff int, seg int) uint64 {
	w := uint64(ptrFar) | uint64(uint32(padOff))<<3 | uint64(uint32(seg))<<32
	if double {
		w |= 1 << 2
	}
	return w
}

func mkCapPtr(index uint32) uint64 { return ptrOther | uint64(index)<<32 }

// offsetFits reports whether a word offset fits the signed 30-bit B field.
func offsetFits(off int) bool { return off >= -(1<<29) && off < 1<<29 }

// ---------------------------------------------------------------------------
// Pointer resolution.
// ---------------------------------------------------------------------------

// object is the result of fully resolving one pointer word: what it refers to
// and where the content lives, after following any far / double-far hops.
type object struct {
	kind Kind

	// Location of the content: segment index and word offset.  For a
	// composite list this is the tag word.  For zero-sized content off may
	// equal the segment length.
	seg, off int
	// words is the total size of the content in words (composite: including
	// the tag word).
	words int

	// Struct section sizes, or composite element section sizes, in words.
	dataWords, ptrWords int

	// Lists.
	elem  int
	count int // number of elements (for composite: from the tag word)

	capIndex uint32

	// hops is 0 for a near pointer, 1 for a far pointer, 2 for double-far.
	hops int
	// Landing pad location and size (hops > 0).
	padSeg, padOff, padWords int
	// nullPad is set when a single-far landing pad was an all-zero word.
	nullPad bool
}

func invalid(seg, off int, format string, args ...any) error {
	return fmt.Errorf("%w: pointer at seg %d word %d: %s", ErrInvalid, seg, off, fmt.Sprintf(format, args...))
}

// checkSegments performs the message-level checks: at least one segment,
// a root pointer word present, every segment a whole number of words.
func checkSegments(segs [][]byte) error {
	if len(segs) == 0 {
		return fmt.Errorf("%w: no segments", ErrInvalid)
	}
	for i, s := range segs {
		if len(s)%8 != 0 {
			return fmt.Errorf("%w: segment %d has length %d, not a multiple of 8", ErrInvalid, i, len(s))
		}
	}
	if len(segs[0]) < 8 {
		return fmt.Errorf("%w: segment 0 is empty (no root pointer)", ErrInvalid)
	}
	return nil
}

// resolve interprets the pointer word at (seg, off) and returns a description
// of its target.  All bounds are checked; a non-nil error wraps ErrInvalid.
// The caller guarantees that (seg, off) itself is in bounds.
func resolve(segs [][]byte, seg, off int) (object, error) {
	w := getWord(segs[seg], off)
	if w == 0 {
		return object{kind: KNull}, nil
	}
	switch ptrType(w) {
	case ptrStruct, ptrList:
		// The offset is relative to the end of the pointer word.
		return resolveNear(segs, seg, off, w, seg, off+1+ptrOffset(w))

	case ptrOther:
		if ptrUpper30(w) != 0 {
			return object{}, invalid(seg, off, "unknown 'other' pointer kind %d", ptrUpper30(w))
		}
		return object{kind: KCap, capIndex: capIndex(w)}, nil
	}

	// Far pointer.
	tseg64 := farSegment(w)
	if uint64(tseg64) >= uint64(len(segs)) {
		return object{}, invalid(seg, off, "far pointer to missing segment %d (have %d)", tseg64, len(segs))
	}
	tseg := int(tseg64)
	segWords := len(segs[tseg]) / 8
	padOff := farPadOffset(w)

	if !farIsDouble(w) {
		// One-word landing pad holding an ordinary struct/list pointer whose
		// offset is relative to the pad's own position.
		if padOff >= segWords {
			return object{}, invalid(seg, off, "landing pad at seg %d word %d outside segment of %d words", tseg, padOff, segWords)
		}
		pad := getWord(segs[tseg], padOff)
		var o object
		if pad == 0 {
			// Ambiguity 1 in the package documentation.
			o = object{kind: KNull, nullPad: true}
		} else {
			switch ptrType(pad) {
			case ptrFar:
				return object{}, invalid(seg, off, "landing pad at seg %d word %d is itself a far pointer", tseg, padOff)
			case ptrOther:
				return object{}, invalid(seg, off, "landing pad at seg %d word %d is an 'other' pointer", tseg, padOff)
			}
			var err error
			o, err = resolveNear(segs, tseg, padOff, pad, tseg, padOff+1+ptrOffset(pad))
			if err != nil {
				return object{}, err
			}
		}
		o.hops, o.padSeg, o.padOff, o.padWords = 1, tseg, padOff, 1
		return o, nil
	}

	// Double-far: two-word landing pad.  Word 0 is a far pointer (B=0) whose
	// segment/offset give the start of the content directly; word 1 is a tag
	// describing the object, shaped like a struct or list pointer with a zero
	// offset.
	if padOff+2 > segWords {
		return object{}, invalid(seg, off, "double-far landing pad at seg %d word %d outside segment of %d words", tseg, padOff, segWords)
	}
	pad0 := getWord(segs[tseg], padOff)
	tag := getWord(segs[tseg], padOff+1)
	if ptrType(pad0) != ptrFar {
		return object{}, invalid(seg, off, "double-far landing pad word 0 at seg %d word %d is not a far pointer", tseg, padOff)
	}
	if farIsDouble(pad0) {
		return object{}, invalid(seg, off, "double-far landing pad word 0 at seg %d word %d is itself double-far", tseg, padOff)
	}
	cseg64 := farSegment(pad0)
	if uint64(cseg64) >= uint64(len(segs)) {
		return object{}, invalid(seg, off, "double-far landing pad refers to missing segment %d", cseg64)
	}
	switch ptrType(tag) {
	case ptrFar, ptrOther:
		return object{}, invalid(seg, off, "double-far tag word at seg %d word %d is not a struct or list pointer", tseg, padOff+1)
	}
	if ptrOffset(tag) != 0 {
		return object{}, invalid(seg, off, "double-far tag word at seg %d word %d has nonzero offset %d", tseg, padOff+1, ptrOffset(tag))
	}
	o, err := resolveNear(segs, tseg, padOff+1, tag, int(cseg64), farPadOffset(pad0))
	if err != nil {
		return object{}, err
	}
	o.hops, o.padSeg, o.padOff, o.padWords = 2, tseg, padOff, 2
	return o, nil
}

// resolveNear interprets w (a struct or list pointer word, or a double-far
// tag word) found at (pseg, poff) as describing content starting at word
// start of segment cseg, and bounds-checks the content.
func resolveNear(segs [][]byte, pseg, poff int, w uint64, cseg, start int) (object, error) {
	segWords := len(segs[cseg]) / 8
	// inBounds checks that [start, start+n) lies within the segment.  With
	// n == 0 it accepts start == segWords (one past the end).
	inBounds := func(n uint64) bool {
		return start >= 0 && uint64(start)+n <= uint64(segWords)
	}

	if ptrType(w) == ptrStruct {
		dw, pw := structDataWords(w), structPtrWords(w)
		if !inBounds(uint64(dw + pw)) {
			return object{}, invalid(pseg, poff, "struct of %d+%d words at seg %d word %d outside segment of %d words", dw, pw, cseg, start, segWords)
		}
		return object{kind: KStruct, seg: cseg, off: start, words: dw + pw, dataWords: dw, ptrWords: pw}, nil
	}

	elem, field := listElemCode(w), listCountField(w)
	if elem != EComposite {
		// Primitive or pointer list: the D field is the element count.
		bits := uint64(field) * uint64(elemBits[elem])
		words := (bits + 63) / 64
		if !inBounds(words) {
			return object{}, invalid(pseg, poff, "list (elem %d, count %d, %d words) at seg %d word %d outside segment of %d words", elem, field, words, cseg, start, segWords)
		}
		return object{kind: KList, seg: cseg, off: start, words: int(words), elem: elem, count: field}, nil
	}

	// Composite list: the D field is the word count of the elements, not
	// counting the tag word which sits at the pointer's target.
	if !inBounds(uint64(field) + 1) {
		return object{}, invalid(pseg, poff, "composite list (1+%d words) at seg %d word %d outside segment of %d words", field, cseg, start, segWords)
	}
	tag := getWord(segs[cseg], start)
	if ptrType(tag) != ptrStruct {
		return object{}, invalid(pseg, poff, "composite tag at seg %d word %d is not a struct pointer", cseg, start)
	}
	count := ptrUpper30(tag)
	dw, pw := structDataWords(tag), structPtrWords(tag)
	if uint64(count)*uint64(dw+pw) != uint64(field) {
		return object{}, invalid(pseg, poff, "composite list at seg %d word %d: %d elements of %d+%d words do not make %d words", cseg, start, count, dw, pw, field)
	}
	return object{kind: KList, seg: cseg, off: start, words: field + 1, elem: EComposite, count: count, dataWords: dw, ptrWords: pw}, nil
}
