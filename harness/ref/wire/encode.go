package wire

import "fmt"

// EncOpts controls Encode.
type EncOpts struct {
	// SegWords is the maximum number of words per segment; 0 means a single
	// unlimited segment.  An object (or landing pad) larger than SegWords is
	// given a fresh segment of exactly its own size, since objects cannot be
	// split; so the limit is exceeded only by such single-object segments.
	SegWords int

	// Rand, if non-nil, must return a number in [0,n) for n > 0.  It is used
	// to pick the segment an object is allocated in and to choose between the
	// feasible pointer forms (near, far, double-far), including far pointers
	// within one segment and unusual-but-legal targets for zero-sized objects.
	//
	// With Rand == nil the encoder is deterministic: first-fit allocation
	// (the pointer's segment, else the last segment, else a new one), a near
	// pointer when the target is in the same segment, otherwise a far pointer
	// if the target's segment has a free word for the landing pad, otherwise
	// a double-far pointer.
	Rand func(n int) int

	// ForceDoubleFar (only consulted when Rand == nil) encodes every
	// pointer to a non-zero-sized object as a double-far pointer.
	ForceDoubleFar bool
	// ForceFar (only consulted when Rand == nil and ForceDoubleFar is false)
	// uses a far pointer whenever the target's segment has room for the
	// landing pad, even for targets in the pointer's own segment.
	ForceFar bool

	// DirtyPadding fills the alignment padding after a list of sub-word
	// elements (the bytes between the end of the list content and the next
	// word boundary) with non-zero bytes, as a producer that does not zero
	// its buffers would.  Readers must ignore those bytes.
	DirtyPadding bool
}

// Encode lays the tree rooted at v out into segments; the root pointer is word
// 0 of segment 0.  v is normally a struct but any kind is accepted.  Encode
// panics if v is malformed (see Value.Check).
//
// Guarantee: Decode(Encode(v, o)) is DeepEqual to v and Validate accepts the
// result, for every o.
func Encode(v *Value, o EncOpts) [][]byte {
	if err := v.Check(); err != nil {
		panic(err)
	}
	if o.SegWords < 0 {
		panic("wire.Encode: negative SegWords")
	}
	e := &encoder{o: o}
	e.newSeg(1) // root pointer
	e.pointer(0, 0, v)
	return e.segs
}

type encoder struct {
	o    EncOpts
	segs [][]byte
}

func (e *encoder) rnd(n int) int {
	r := e.o.Rand(n)
	if r < 0 || r >= n {
		panic(fmt.Sprintf("wire.Encode: Rand(%d) returned %d", n, r))
	}
	return r
}

// room returns how many more words fit into segment s.
func (e *encoder) room(s int) int {
	if e.o.SegWords == 0 {
		return 1 << 28 // effectively unlimited
	}
	return max(0, e.o.SegWords-len(e.segs[s])/8)
}

// allocIn appends n zero words to segment s and returns their offset.
func (e *encoder) allocIn(s, n int) int {
	off := len(e.segs[s]) / 8
	e.segs[s] = append(e.segs[s], make([]byte, 8*n)...)
	return off
}

// newSeg starts a new segment holding n zero words and returns its index.
func (e *encoder) newSeg(n int) int {
	e.segs = append(e.segs, make([]byte, 8*n))
	return len(e.segs) - 1
}

// alloc finds n > 0 words, preferring segment near.
func (e *encoder) alloc(n, near int) (seg, off int) {
	var candidates []int
	last := len(e.segs) - 1
	if e.o.Rand != nil {
		switch e.rnd(4) {
		case 0, 1:
			candidates = []int{near, last}
		case 2:
			candidates = []int{e.rnd(len(e.segs)), near, last}
		case 3:
			if e.o.SegWords != 0 {
				return e.newSeg(n), 0
			}
			candidates = []int{near}
		}
	} else {
		candidates = []int{near, last}
	}
	for _, s := range candidates {
		if e.room(s) >= n {
			return s, e.allocIn(s, n)
		}
	}
	return e.newSeg(n), 0
}

// Pointer forms.
const (
	formNear = iota
	formFar
	formDouble
)

// link writes into (pseg, poff) a pointer to the non-empty content at
// (tseg, toff).  desc is the struct or list pointer word describing the
// content, with a zero offset field.
func (e *encoder) link(pseg, poff, tseg, toff int, desc uint64) {
	canNear := pseg == tseg
	canFar := e.room(tseg) >= 1 // the landing pad must be in the target's segment

	var form int
	switch {
	case e.o.Rand != nil:
		forms := []int{formDouble}
		if canFar {
			forms = append(forms, formFar)
		}
		if canNear {
			// Near pointers get extra weight so that trees are not
			// dominated by landing pads.
			forms = append(forms, formNear, formNear, formNear)
		}
		form = forms[e.rnd(len(forms))]
	case e.o.ForceDoubleFar:
		form = formDouble
	case e.o.ForceFar && canFar:
		form = formFar
	case canNear:
		form = formNear
	case canFar:
		form = formFar
	default:
		form = formDouble
	}

	switch form {
	case formNear:
		putWord(e.segs[pseg], poff, withOffset(desc, toff-(poff+1)))
	case formFar:
		pad := e.allocIn(tseg, 1)
		putWord(e.segs[tseg], pad, withOffset(desc, toff-(pad+1)))
		putWord(e.segs[pseg], poff, mkFarPtr(false, pad, tseg))
	case formDouble:
		dseg, doff := e.alloc(2, pseg)
		putWord(e.segs[dseg], doff, mkFarPtr(false, toff, tseg))
		putWord(e.segs[dseg], doff+1, desc) // tag: offset field zero
		putWord(e.segs[pseg], poff, mkFarPtr(true, doff, dseg))
	}
}

// withOffset sets the 30-bit offset field of a struct/list pointer word.
func withOffset(desc uint64, off int) uint64 {
	if !offsetFits(off) {
		panic("wire.Encode: pointer offset does not fit in 30 bits")
	}
	return desc&^0xfffffffc | uint64(uint32(int32(off))<<2)
}

// linkEmpty writes into (pseg, poff) a pointer to zero-sized content
// described by desc (a zero-sized struct, a void list or an empty list).
// Nothing is allocated for the content itself.
func (e *encoder) linkEmpty(pseg, poff int, desc uint64) {
	isStruct := ptrType(desc) == ptrStruct
	// Spec: a zero-sized struct should be encoded with offset -1 so that the
	// pointer is never all zero.  For lists the natural offset 0 is fine
	// because the type bits are non-zero.
	canonicalOff := 0
	if isStruct {
		canonicalOff = -1
	}
	if e.o.Rand == nil {
		putWord(e.segs[pseg], poff, withOffset(desc, canonicalOff))
		return
	}
	switch e.rnd(4) {
	case 0:
		// Any in-bounds target is legal for zero-sized content: choose a
		// random word of the pointer's segment, or one past its end.
		target := e.rnd(len(e.segs[pseg])/8 + 1)
		off := target - (poff + 1)
		if isStruct && off == 0 {
			off = -1 // would read as null
		}
		putWord(e.segs[pseg], poff, withOffset(desc, off))
	case 1:
		// Via a far pointer: one-word landing pad anywhere.
		dseg, doff := e.alloc(1, pseg)
		putWord(e.segs[dseg], doff, withOffset(desc, canonicalOff))
		putWord(e.segs[pseg], poff, mkFarPtr(false, doff, dseg))
	default:
		putWord(e.segs[pseg], poff, withOffset(desc, canonicalOff))
	}
}

// pointer encodes v and stores a pointer to it at (pseg, poff).
func (e *encoder) pointer(pseg, poff int, v *Value) {
	switch v.Kind {
	case KNull:
		// The word is already zero.
	case KCap:
		putWord(e.segs[pseg], poff, mkCapPtr(v.CapIndex))

	case KStruct:
		dw, pw := len(v.Data)/8, len(v.Ptrs)
		desc := mkStructPtr(0, dw, pw)
		if dw+pw == 0 {
			e.linkEmpty(pseg, poff, desc)
			return
		}
		seg, off := e.alloc(dw+pw, pseg)
		e.link(pseg, poff, seg, off, desc)
		e.structBody(seg, off, v)

	case KList:
		switch {
		case v.Elem <= EEight:
			desc := mkListPtr(0, v.Elem, v.Count)
			words := wordsFor(len(v.Bytes))
			if words == 0 {
				e.linkEmpty(pseg, poff, desc)
				return
			}
			seg, off := e.alloc(words, pseg)
			e.link(pseg, poff, seg, off, desc)
			copy(e.segs[seg][off*8:], v.Bytes)
			if e.o.DirtyPadding {
				for i := off*8 + len(v.Bytes); i < (off+words)*8; i++ {
					e.segs[seg][i] = byte(0xa5 + i)
					if e.segs[seg][i] == 0 {
						e.segs[seg][i] = 0x5a
					}
				}
			}

		case v.Elem == EPtr:
			desc := mkListPtr(0, EPtr, v.Count)
			if v.Count == 0 {
				e.linkEmpty(pseg, poff, desc)
				return
			}
			seg, off := e.alloc(v.Count, pseg)
			e.link(pseg, poff, seg, off, desc)
			for i, p := range v.Items {
				e.pointer(seg, off+i, p)
			}

		default: // composite: always has at least the tag word
			stride := v.CompData + v.CompPtrs
			body := v.Count * stride
			seg, off := e.alloc(1+body, pseg)
			e.link(pseg, poff, seg, off, mkListPtr(0, EComposite, body))
			putWord(e.segs[seg], off, mkStructPtr(v.Count, v.CompData, v.CompPtrs))
			for i, el := range v.Items {
				e.structBody(seg, off+1+i*stride, el)
			}
		}
	}
}

// structBody writes v's sections at (seg, off) and encodes its children.
func (e *encoder) structBody(seg, off int, v *Value) {
	copy(e.segs[seg][off*8:], v.Data)
	dw := len(v.Data) / 8
	for i, p := range v.Ptrs {
		e.pointer(seg, off+dw+i, p)
	}
}
