package wire

// Test helpers shared with the external test package (xcheck_test.go).
var (
	Mutate    = mutate
	PadValue  = padValue
	TinyValue = tinyValue
)
