// Package wire is an independent reference model of the Cap'n Proto wire encoding.
//
// It is written from the public specification (capnproto.org/encoding.html)
// only and deliberately shares no code with any Cap'n Proto implementation,
// so that it can serve as a test oracle.  Clarity is preferred over speed.
//
// # Overview
//
//   - Value is a plain tree representation of a message: structs, lists,
//     capabilities and nulls, with section sizes preserved exactly.
//   - Decode turns segments into a Value tree, following near, far and
//     double-far pointers, and rejects structurally invalid input.
//   - Validate performs the same checks without building a tree and
//     additionally demands that all reachable objects are pairwise disjoint.
//   - Equal implements schema-less structural equality (trailing zero
//     padding is insignificant; primitive lists equal their struct-list
//     upgrades).
//   - Canonical produces the canonical single-segment encoding.
//   - Encode is an independent encoder that can spread a tree over many
//     small segments, producing far and double-far pointers.
//   - ParseFrame / BuildFrame / FrameBoundaries implement stream framing.
//
// # Spec ambiguities and how they are resolved here
//
//  1. Landing pad that is an all-zero word (far pointer, B=0).  An all-zero
//     word is the null pointer, but it is also bit-identical to a struct
//     pointer with offset 0 and zero size.  Decode yields KNull; Validate
//     counts it in Report.NullLandingPads so callers can skip such inputs.
//     (In a double-far landing pad the tag word has a mandatory zero offset,
//     so an all-zero tag unambiguously describes a zero-sized struct.)
//  2. Landing pad (B=0) that is itself a far pointer or a capability pointer:
//     rejected.  The spec says the pad "points to the actual object", which
//     must be in the pad's segment; neither form satisfies that.
//  3. Composite lists: the list pointer's word count must equal
//     count*(dataWords+ptrWords) exactly; slack is rejected.
//  4. The composite tag's element count is the 30-bit B field read as an
//     unsigned number.
//  5. Zero-sized objects (zero-sized structs, void lists, empty lists) may
//     point anywhere from word 0 to one-past-the-end of the segment, so the
//     recommended offset -1 for a zero-sized struct is accepted, as is
//     offset 0 in the last word of a segment.  Anything outside that range is
//     rejected.
//  6. Unused high bits of the last byte of a bit list are padding: they are
//     kept verbatim in Value.Bytes, ignored by Equal and DeepEqual, and
//     zeroed by Canonical.
//  7. Aliasing (two pointers to the same object) is accepted by Decode
//     (subject to Limits) but rejected by Validate as an overlap.
package wire
