package wire

import "fmt"

// Limits bounds the work Decode may do, so that cyclic or heavily aliased
// messages terminate with an error instead of looping or exploding.
//
// A zero field selects the default for that field (see DefaultLimits).
type Limits struct {
	// MaxDepth is the maximum pointer nesting: the root object is at depth 1,
	// objects it points to at depth 2, and so on.  Pointers found inside
	// composite list elements count as one level below the list.
	MaxDepth int
	// MaxNodes is the maximum number of non-null Values created, counting
	// every composite list element as one.
	MaxNodes int
	// MaxWords is the maximum total number of content words visited (each
	// object's body is counted every time it is reached).  The default is
	// 8 times the size of the message plus 64.
	MaxWords int
}

// DefaultLimits are the values used for zero fields of Limits
// (MaxWords is computed from the message size).
var DefaultLimits = Limits{MaxDepth: 64, MaxNodes: 1 << 20}

type decoder struct {
	segs  [][]byte
	lim   Limits
	nodes int
	words int
}

// Decode decodes the message whose root pointer is word 0 of segment 0 into
// a Value tree.  The root may be of any kind (for a well-formed message it is
// a struct).  Errors wrap ErrInvalid or ErrLimit.  The result shares no memory
// with segs.
func Decode(segs [][]byte, lim Limits) (*Value, error) {
	if err := checkSegments(segs); err != nil {
		return nil, err
	}
	if lim.MaxDepth == 0 {
		lim.MaxDepth = DefaultLimits.MaxDepth
	}
	if lim.MaxNodes == 0 {
		lim.MaxNodes = DefaultLimits.MaxNodes
	}
	if lim.MaxWords == 0 {
		total := 0
		for _, s := range segs {
			total += len(s) / 8
		}
		lim.MaxWords = 8*total + 64
	}
	d := &decoder{segs: segs, lim: lim}
	return d.pointer(0, 0, 1)
}

// charge accounts for n new nodes and w content words.
func (d *decoder) charge(n, w int) error {
	// Compare before adding so that huge counts cannot overflow.
	if n > d.lim.MaxNodes-d.nodes {
		return fmt.Errorf("%w: more than %d nodes", ErrLimit, d.lim.MaxNodes)
	}
	if w > d.lim.MaxWords-d.words {
		return fmt.Errorf("%w: more than %d words traversed", ErrLimit, d.lim.MaxWords)
	}
	d.nodes += n
	d.words += w
	return nil
}

// pointer decodes the pointer word at (seg, off); depth is the depth the
// target object would have.
func (d *decoder) pointer(seg, off, depth int) (*Value, error) {
	o, err := resolve(d.segs, seg, off)
	if err != nil {
		return nil, err
	}
	switch o.kind {
	case KNull:
		return NullValue(), nil
	case KCap:
		if err := d.charge(1, 0); err != nil {
			return nil, err
		}
		return &Value{Kind: KCap, CapIndex: o.capIndex}, nil
	}
	if depth > d.lim.MaxDepth {
		return nil, fmt.Errorf("%w: nesting deeper than %d", ErrLimit, d.lim.MaxDepth)
	}
	if o.kind == KStruct {
		if err := d.charge(1, o.words); err != nil {
			return nil, err
		}
		return d.structBody(o.seg, o.off, o.dataWords, o.ptrWords, depth)
	}
	return d.list(o, depth)
}

// structBody decodes a struct (or composite element) whose data section
// starts at (seg, off).  depth is the depth of the enclosing object.
func (d *decoder) structBody(seg, off, dataWords, ptrWords, depth int) (*Value, error) {
	s := d.segs[seg]
	v := &Value{Kind: KStruct}
	v.Data = append([]byte{}, s[off*8:(off+dataWords)*8]...)
	v.Ptrs = make([]*Value, ptrWords)
	for i := range v.Ptrs {
		p, err := d.pointer(seg, off+dataWords+i, depth+1)
		if err != nil {
			return nil, err
		}
		v.Ptrs[i] = p
	}
	return v, nil
}

func (d *decoder) list(o object, depth int) (*Value, error) {
	s := d.segs[o.seg]
	v := &Value{Kind: KList, Elem: o.elem, Count: o.count}
	switch {
	case o.elem <= EEight:
		if err := d.charge(1, o.words); err != nil {
			return nil, err
		}
		n := listByteLen(o.elem, o.count)
		v.Bytes = append([]byte{}, s[o.off*8:o.off*8+n]...)

	case o.elem == EPtr:
		if err := d.charge(1, o.words); err != nil {
			return nil, err
		}
		v.Items = make([]*Value, o.count)
		for i := range v.Items {
			p, err := d.pointer(o.seg, o.off+i, depth+1)
			if err != nil {
				return nil, err
			}
			v.Items[i] = p
		}

	default: // composite
		// Charge for the elements before allocating: a zero-sized element
		// type allows a count of 2^30-1 in a one-word list body.
		if err := d.charge(1, o.words); err != nil {
			return nil, err
		}
		if err := d.charge(o.count, 0); err != nil {
			return nil, err
		}
		v.CompData, v.CompPtrs = o.dataWords, o.ptrWords
		v.Items = make([]*Value, o.count)
		stride := o.dataWords + o.ptrWords
		for i := range v.Items {
			e, err := d.structBody(o.seg, o.off+1+i*stride, o.dataWords, o.ptrWords, depth)
			if err != nil {
				return nil, err
			}
			v.Items[i] = e
		}
	}
	return v, nil
}
