package wire

import (
	"errors"
	"fmt"
)

// CanonOpts selects variants of the canonical form.
type CanonOpts struct {
	// ZeroSizedStructOffsetZero encodes a pointer to a zero-sized struct
	// with the "natural" pre-order offset (pointing at the position where the
	// next object will be allocated) instead of the spec-mandated -1.
	//
	// Beware: when the pointer happens to be the last word allocated so far
	// the natural offset is 0 and the pointer word becomes all zero, i.e.
	// indistinguishable from null.  This is exactly why the spec mandates -1.
	ZeroSizedStructOffsetZero bool
}

// ErrCanonCap is returned (wrapped) by Canonical when the tree contains a
// capability; such messages have no canonical form.
var ErrCanonCap = errors.New("wire: capability in canonicalization input")

// Canonical returns the canonical encoding of the struct v per the
// "Canonicalization" section of the spec:
//
//   - a single segment, without a segment table; word 0 is the root struct
//     pointer;
//   - objects laid out in pre-order: an object's body, then the subtree of
//     its first pointer, then of its second pointer, and so on (for composite
//     lists: element by element, pointer by pointer);
//   - struct data sections lose trailing zero words and pointer sections lose
//     trailing null pointers;
//   - all elements of a composite list are given the maximum over the
//     elements of the truncated data size and of the truncated pointer count;
//   - primitive lists keep their element size and are zero-padded to a word
//     (bit lists: also to a byte);
//   - a pointer to a zero-sized struct has offset -1; null pointers are zero
//     words; pointers to zero-length bodies (empty lists, void lists) point at
//     the position of the next allocation.
//
// It fails if v is not a KStruct, is malformed (ErrBadValue) or reaches a
// capability (ErrCanonCap).
func Canonical(v *Value) ([]byte, error) { return CanonicalOpts(v, CanonOpts{}) }

// CanonicalOpts is Canonical with explicit options.
func CanonicalOpts(v *Value, o CanonOpts) ([]byte, error) {
	if v == nil || v.Kind != KStruct {
		return nil, fmt.Errorf("%w: canonicalization root must be a struct", ErrBadValue)
	}
	if err := v.Check(); err != nil {
		return nil, err
	}
	c := &canon{opts: o, buf: make([]byte, 8)} // word 0: root pointer
	if err := c.pointer(0, v); err != nil {
		return nil, err
	}
	return c.buf, nil
}

type canon struct {
	opts CanonOpts
	buf  []byte
}

// alloc appends n zero words and returns the index of the first.
func (c *canon) alloc(n int) int {
	at := len(c.buf) / 8
	c.buf = append(c.buf, make([]byte, 8*n)...)
	return at
}

// truncatedSizes returns the struct's section sizes after dropping trailing
// zero data words and trailing null pointers.
func truncatedSizes(v *Value) (dataWords, ptrs int) {
	dataWords = len(v.Data) / 8
	for dataWords > 0 && getWord(v.Data, dataWords-1) == 0 {
		dataWords--
	}
	ptrs = len(v.Ptrs)
	for ptrs > 0 && v.Ptrs[ptrs-1].Kind == KNull {
		ptrs--
	}
	return
}

// pointer fills in the pointer word at index at so that it refers to v, and
// appends v's body and descendants.
func (c *canon) pointer(at int, v *Value) error {
	switch v.Kind {
	case KNull:
		return nil // already zero

	case KCap:
		return fmt.Errorf("%w (index %d)", ErrCanonCap, v.CapIndex)

	case KStruct:
		dw, pw := truncatedSizes(v)
		if dw+pw == 0 {
			off := -1
			if c.opts.ZeroSizedStructOffsetZero {
				off = len(c.buf)/8 - (at + 1)
			}
			putWord(c.buf, at, mkStructPtr(off, 0, 0))
			return nil
		}
		start := c.alloc(dw + pw)
		putWord(c.buf, at, mkStructPtr(start-(at+1), dw, pw))
		return c.structBody(start, v, dw, pw)

	case KList:
		switch {
		case v.Elem <= EEight:
			n := listByteLen(v.Elem, v.Count)
			start := c.alloc(wordsFor(n))
			putWord(c.buf, at, mkListPtr(start-(at+1), v.Elem, v.Count))
			copy(c.buf[start*8:], v.Bytes[:n])
			if v.Elem == EBit && n > 0 {
				c.buf[start*8+n-1] &= bitMask(v.Count) // zero the padding bits
			}
			return nil

		case v.Elem == EPtr:
			start := c.alloc(v.Count)
			putWord(c.buf, at, mkListPtr(start-(at+1), EPtr, v.Count))
			for i, p := range v.Items {
				if err := c.pointer(start+i, p); err != nil {
					return err
				}
			}
			return nil

		default: // composite
			dw, pw := 0, 0
			for _, e := range v.Items {
				d, p := truncatedSizes(e)
				dw, pw = max(dw, d), max(pw, p)
			}
			stride := dw + pw
			start := c.alloc(1 + v.Count*stride)
			putWord(c.buf, at, mkListPtr(start-(at+1), EComposite, v.Count*stride))
			// Tag: struct-pointer shaped, element count in the offset field.
			putWord(c.buf, start, mkStructPtr(v.Count, dw, pw))
			// All element bodies first (they are the list's body), then the
			// subtrees in element order.
			for i, e := range v.Items {
				copy(c.buf[(start+1+i*stride)*8:], e.Data[:dw*8])
			}
			for i, e := range v.Items {
				base := start + 1 + i*stride + dw
				for j := 0; j < pw; j++ {
					if err := c.pointer(base+j, e.Ptrs[j]); err != nil {
						return err
					}
				}
			}
			return nil
		}
	}
	return fmt.Errorf("%w: unknown kind %d", ErrBadValue, v.Kind)
}

// structBody writes the first dw data words and the first pw pointers of v
// at word index start.
func (c *canon) structBody(start int, v *Value, dw, pw int) error {
	copy(c.buf[start*8:], v.Data[:dw*8])
	for j := 0; j < pw; j++ {
		if err := c.pointer(start+dw+j, v.Ptrs[j]); err != nil {
			return err
		}
	}
	return nil
}
