package wire

import (
	"bytes"
	"encoding/hex"
	"errors"
	"fmt"
	"strings"
)

// Kind is the kind of a Value node.
type Kind uint8

const (
	KNull Kind = iota
	KStruct
	KList
	KCap
)

func (k Kind) String() string {
	switch k {
	case KNull:
		return "null"
	case KStruct:
		return "struct"
	case KList:
		return "list"
	case KCap:
		return "cap"
	}
	return fmt.Sprintf("Kind(%d)", uint8(k))
}

// Element size codes, as in the C field of a list pointer.
const (
	EVoid      = 0
	EBit       = 1
	EByte      = 2
	ETwo       = 3
	EFour      = 4
	EEight     = 5
	EPtr       = 6
	EComposite = 7
)

// Field-width limits imposed by the pointer encodings.
const (
	maxSectionWords   = 1<<16 - 1 // struct data / pointer section size (16 bits each)
	maxListCount      = 1<<29 - 1 // list pointer D field (29 bits)
	maxCompositeCount = 1<<30 - 1 // composite tag B field (30 bits)
)

// elemBits is the number of bits per element for element codes 0..6.
var elemBits = [7]int{0, 1, 8, 16, 32, 64, 64}

// Value is one node of a decoded message tree.
type Value struct {
	Kind Kind

	// KStruct: Data is the data section (len = 8*dataWords) and Ptrs the
	// pointer section (len = pointer count).  Entries of Ptrs are never nil;
	// a null pointer is a Value with Kind KNull.
	Data []byte
	Ptrs []*Value

	// KList.
	Elem  int // element size code 0..7
	Count int // number of elements
	// Elem 0..5: raw element storage exactly as on the wire,
	// len = ceil(Count*bits/8) (not padded to a word).  For bit lists element
	// i is bit (i%8) of Bytes[i/8].
	Bytes []byte
	// Elem == EPtr: Count pointer values.
	// Elem == EComposite: Count struct values, each with
	// len(Data) == 8*CompData and len(Ptrs) == CompPtrs.
	Items []*Value
	// Composite element section sizes (words / pointers) from the tag word.
	CompData, CompPtrs int

	// KCap.
	CapIndex uint32
}

// NullValue returns a fresh null Value.
func NullValue() *Value { return &Value{Kind: KNull} }

// orNull maps a nil *Value to a null Value so that helpers are total.
func orNull(v *Value) *Value {
	if v == nil {
		return &Value{Kind: KNull}
	}
	return v
}

// Clone returns a deep copy of v.  A nil receiver yields a null Value.
func (v *Value) Clone() *Value {
	if v == nil {
		return NullValue()
	}
	c := &Value{
		Kind:     v.Kind,
		Elem:     v.Elem,
		Count:    v.Count,
		CompData: v.CompData,
		CompPtrs: v.CompPtrs,
		CapIndex: v.CapIndex,
	}
	if v.Data != nil {
		c.Data = append([]byte{}, v.Data...)
	}
	if v.Bytes != nil {
		c.Bytes = append([]byte{}, v.Bytes...)
	}
	if v.Ptrs != nil {
		c.Ptrs = make([]*Value, len(v.Ptrs))
		for i, p := range v.Ptrs {
			c.Ptrs[i] = p.Clone()
		}
	}
	if v.Items != nil {
		c.Items = make([]*Value, len(v.Items))
		for i, p := range v.Items {
			c.Items[i] = p.Clone()
		}
	}
	return c
}

// String renders v compactly and deterministically, for debugging.
//
//	null                       null pointer
//	cap(3)                     capability with index 3
//	S(d=0100..., p=[..])       struct: hex data section, pointers
//	L2x3(010203)               byte list with 3 elements
//	L6x2[null, S(..)]          pointer list
//	L7x2<1,1>[S(..), S(..)]    composite list, 1 data word, 1 pointer
func (v *Value) String() string {
	var sb strings.Builder
	v.render(&sb)
	return sb.String()
}

func (v *Value) render(sb *strings.Builder) {
	if v == nil {
		sb.WriteString("<nil>")
		return
	}
	switch v.Kind {
	case KNull:
		sb.WriteString("null")
	case KCap:
		fmt.Fprintf(sb, "cap(%d)", v.CapIndex)
	case KStruct:
		sb.WriteString("S(d=")
		sb.WriteString(hex.EncodeToString(v.Data))
		sb.WriteString(", p=[")
		for i, p := range v.Ptrs {
			if i > 0 {
				sb.WriteString(", ")
			}
			p.render(sb)
		}
		sb.WriteString("])")
	case KList:
		fmt.Fprintf(sb, "L%dx%d", v.Elem, v.Count)
		switch {
		case v.Elem == EComposite:
			fmt.Fprintf(sb, "<%d,%d>", v.CompData, v.CompPtrs)
			fallthrough
		case v.Elem == EPtr:
			sb.WriteString("[")
			for i, p := range v.Items {
				if i > 0 {
					sb.WriteString(", ")
				}
				p.render(sb)
			}
			sb.WriteString("]")
		default:
			sb.WriteString("(")
			sb.WriteString(hex.EncodeToString(v.Bytes))
			sb.WriteString(")")
		}
	default:
		fmt.Fprintf(sb, "<bad kind %d>", v.Kind)
	}
}

// listByteLen returns the number of bytes occupied by count elements of
// primitive element code elem (0..6), rounded up to a whole byte.
func listByteLen(elem, count int) int {
	return (count*elemBits[elem] + 7) / 8
}

// wordsFor returns the number of 8-byte words needed to hold n bytes.
func wordsFor(nbytes int) int { return (nbytes + 7) / 8 }

// ErrBadValue is wrapped by errors returned from Value.Check (and therefore
// from Canonical) when a Value tree violates the representation invariants.
var ErrBadValue = errors.New("wire: malformed Value")

// Check verifies the representation invariants of the tree rooted at v:
// section lengths, list storage lengths, composite element shapes, absence of
// nil pointers and the size limits imposed by the pointer encodings.
func (v *Value) Check() error {
	return v.check("root")
}

func (v *Value) check(path string) error {
	bad := func(format string, args ...any) error {
		return fmt.Errorf("%w: %s: %s", ErrBadValue, path, fmt.Sprintf(format, args...))
	}
	if v == nil {
		return bad("nil Value")
	}
	switch v.Kind {
	case KNull, KCap:
		return nil
	case KStruct:
		if len(v.Data)%8 != 0 {
			return bad("data section of %d bytes is not a whole number of words", len(v.Data))
		}
		if len(v.Data)/8 > maxSectionWords || len(v.Ptrs) > maxSectionWords {
			return bad("struct sections too large (%d words, %d pointers)", len(v.Data)/8, len(v.Ptrs))
		}
		for i, p := range v.Ptrs {
			if err := p.check(fmt.Sprintf("%s.p%d", path, i)); err != nil {
				return err
			}
		}
		return nil
	case KList:
		if v.Elem < 0 || v.Elem > EComposite {
			return bad("element size code %d", v.Elem)
		}
		if v.Count < 0 {
			return bad("negative count")
		}
		switch {
		case v.Elem <= EEight:
			if v.Count > maxListCount {
				return bad("count %d exceeds 29 bits", v.Count)
			}
			if want := listByteLen(v.Elem, v.Count); len(v.Bytes) != want {
				return bad("elem %d count %d needs %d bytes, have %d", v.Elem, v.Count, want, len(v.Bytes))
			}
			if len(v.Items) != 0 {
				return bad("primitive list with Items")
			}
		case v.Elem == EPtr:
			if v.Count > maxListCount {
				return bad("count %d exceeds 29 bits", v.Count)
			}
			if len(v.Items) != v.Count {
				return bad("pointer list count %d but %d items", v.Count, len(v.Items))
			}
			for i, p := range v.Items {
				if err := p.check(fmt.Sprintf("%s[%d]", path, i)); err != nil {
					return err
				}
			}
		default: // composite
			if v.CompData < 0 || v.CompData > maxSectionWords || v.CompPtrs < 0 || v.CompPtrs > maxSectionWords {
				return bad("composite element sizes %d/%d", v.CompData, v.CompPtrs)
			}
			if v.Count > maxCompositeCount {
				return bad("composite count %d exceeds 30 bits", v.Count)
			}
			if uint64(v.Count)*uint64(v.CompData+v.CompPtrs) > maxListCount {
				return bad("composite body exceeds 29-bit word count")
			}
			if len(v.Items) != v.Count {
				return bad("composite list count %d but %d items", v.Count, len(v.Items))
			}
			for i, e := range v.Items {
				if e == nil || e.Kind != KStruct {
					return bad("composite element %d is not a struct", i)
				}
				if len(e.Data) != 8*v.CompData || len(e.Ptrs) != v.CompPtrs {
					return bad("composite element %d has sections %d bytes/%d ptrs, list says %d words/%d ptrs",
						i, len(e.Data), len(e.Ptrs), v.CompData, v.CompPtrs)
				}
				if err := e.check(fmt.Sprintf("%s[%d]", path, i)); err != nil {
					return err
				}
			}
		}
		return nil
	}
	return bad("unknown kind %d", v.Kind)
}

// bitMask returns the mask of meaningful bits in the last byte of a bit list
// with count elements (0xff when the last byte is full or count is 0).
func bitMask(count int) byte {
	if r := count % 8; r != 0 {
		return byte(1<<r - 1)
	}
	return 0xff
}

// primBytesEqual compares the storage of two primitive lists of the same
// element code and count.  For bit lists only the first count bits matter.
func primBytesEqual(elem, count int, a, b []byte) bool {
	if len(a) != len(b) {
		return false
	}
	if elem != EBit || len(a) == 0 {
		return bytes.Equal(a, b)
	}
	n := len(a) - 1
	if !bytes.Equal(a[:n], b[:n]) {
		return false
	}
	m := bitMask(count)
	return a[n]&m == b[n]&m
}

// DeepEqual reports whether a and b are exactly the same tree: same kinds,
// same section sizes, same element codes, same bytes.  The only thing ignored
// is the padding bits in the last byte of a bit list.  nil is treated as null.
func DeepEqual(a, b *Value) bool {
	a, b = orNull(a), orNull(b)
	if a.Kind != b.Kind {
		return false
	}
	switch a.Kind {
	case KNull:
		return true
	case KCap:
		return a.CapIndex == b.CapIndex
	case KStruct:
		if !bytes.Equal(a.Data, b.Data) || len(a.Ptrs) != len(b.Ptrs) {
			return false
		}
		for i := range a.Ptrs {
			if !DeepEqual(a.Ptrs[i], b.Ptrs[i]) {
				return false
			}
		}
		return true
	case KList:
		if a.Elem != b.Elem || a.Count != b.Count {
			return false
		}
		if a.Elem <= EEight {
			return primBytesEqual(a.Elem, a.Count, a.Bytes, b.Bytes)
		}
		if a.Elem == EComposite && (a.CompData != b.CompData || a.CompPtrs != b.CompPtrs) {
			return false
		}
		if len(a.Items) != len(b.Items) {
			return false
		}
		for i := range a.Items {
			if !DeepEqual(a.Items[i], b.Items[i]) {
				return false
			}
		}
		return true
	}
	return false
}
