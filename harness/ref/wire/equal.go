package wire

// EqOpts tunes the corner cases of structural equality.
type EqOpts struct {
	// EmptyListsOfDifferentKindEqual makes any two lists with Count == 0
	// equal, whatever their element codes.
	EmptyListsOfDifferentKindEqual bool
	// BitListEqualsComposite lets a bit list equal a composite list whose
	// elements hold the bit as bit 0 of their data section and nothing else.
	// The spec forbids upgrading List(Bool) to a struct list, so by default a
	// non-empty bit list never equals a composite list.  (Two empty lists, one
	// bit and one composite, are equal either way, like any primitive /
	// composite pair.)
	BitListEqualsComposite bool
}

// Equal is schema-less structural equality of two pointer values:
//
//   - Different kinds are unequal; null equals only null.
//   - Capabilities are equal iff their indices are equal.
//   - Structs are equal iff their data sections are equal after
//     zero-extending the shorter one and their pointer sections are pairwise
//     Equal after null-extending the shorter one.
//   - Lists must have the same length.  Two composite lists are compared
//     element-wise as structs.  Two non-composite lists must have the same
//     element code and equal elements (bit lists: the first Count bits).
//     A non-composite list equals a composite list iff every composite
//     element equals the struct that has the primitive element as its sole
//     field: data bytes at offset 0 for byte-sized elements, pointer 0 for
//     pointer lists, nothing for void.
//
// nil is treated as null.
func Equal(a, b *Value) bool { return EqualOpts(a, b, EqOpts{}) }

// EqualOpts is Equal with explicit options.
func EqualOpts(a, b *Value, o EqOpts) bool {
	a, b = orNull(a), orNull(b)
	if a.Kind != b.Kind {
		return false
	}
	switch a.Kind {
	case KNull:
		return true
	case KCap:
		return a.CapIndex == b.CapIndex
	case KStruct:
		return structEqual(a.Data, a.Ptrs, b.Data, b.Ptrs, o)
	case KList:
		return listEqual(a, b, o)
	}
	return false
}

// structEqual compares two (data, pointers) pairs with zero/null extension.
// The data slices need not be whole words.
func structEqual(ad []byte, ap []*Value, bd []byte, bp []*Value, o EqOpts) bool {
	if len(ad) < len(bd) {
		ad, bd = bd, ad
	}
	// ad is now the longer one.
	for i := range ad {
		var y byte
		if i < len(bd) {
			y = bd[i]
		}
		if ad[i] != y {
			return false
		}
	}
	if len(ap) < len(bp) {
		ap, bp = bp, ap
	}
	for i := range ap {
		var y *Value // nil stands for null
		if i < len(bp) {
			y = bp[i]
		}
		if !EqualOpts(ap[i], y, o) {
			return false
		}
	}
	return true
}

func listEqual(a, b *Value, o EqOpts) bool {
	if a.Count != b.Count {
		return false
	}
	if a.Count == 0 && o.EmptyListsOfDifferentKindEqual {
		return true
	}
	aComp, bComp := a.Elem == EComposite, b.Elem == EComposite
	switch {
	case aComp && bComp:
		for i := range a.Items {
			x, y := a.Items[i], b.Items[i]
			if !structEqual(x.Data, x.Ptrs, y.Data, y.Ptrs, o) {
				return false
			}
		}
		return true

	case !aComp && !bComp:
		if a.Elem != b.Elem {
			return false
		}
		if a.Elem == EPtr {
			for i := range a.Items {
				if !EqualOpts(a.Items[i], b.Items[i], o) {
					return false
				}
			}
			return true
		}
		return primBytesEqual(a.Elem, a.Count, a.Bytes, b.Bytes)
	}

	// Exactly one side is composite; call it c and the other p.
	p, c := a, b
	if aComp {
		p, c = b, a
	}
	if p.Elem == EBit && p.Count > 0 && !o.BitListEqualsComposite {
		return false
	}
	for i, e := range c.Items {
		var pd []byte
		var pp []*Value
		switch p.Elem {
		case EVoid:
			// sole field is nothing: the element must be all zero / null.
		case EBit:
			pd = []byte{p.Bytes[i/8] >> (i % 8) & 1}
		case EPtr:
			pp = p.Items[i : i+1]
		default:
			n := elemBits[p.Elem] / 8
			pd = p.Bytes[i*n : (i+1)*n]
		}
		if !structEqual(pd, pp, e.Data, e.Ptrs, o) {
			return false
		}
	}
	return true
}
