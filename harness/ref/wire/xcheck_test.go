package wire_test

// Sanity cross-checks of the reference model against the Go library, through
// the library's public API only.  The model is the authority: where the two
// disagree the disagreement is analysed in the comments below and, if the
// library is at fault according to the spec, the case is tallied and logged
// rather than failed.

import (
	"bytes"
	"fmt"
	"math/rand"
	"testing"

	capnp "capnproto.org/go/capnp/v3"

	"verifh/ref/packedref"
	"verifh/ref/wire"
)

func libRoot(t *testing.T, segs [][]byte) capnp.Ptr {
	t.Helper()
	msg, err := capnp.Unmarshal(wire.BuildFrame(segs))
	if err != nil {
		t.Fatalf("library Unmarshal: %v", err)
	}
	p, err := msg.Root()
	if err != nil {
		t.Fatalf("library Root: %v", err)
	}
	return p
}

// libMatches walks the library's view of a message guided by the expected
// Value (the public API has no way to ask a list for its element size) and
// reports the first difference.
func libMatches(p capnp.Ptr, v *wire.Value, path string) string {
	switch v.Kind {
	case wire.KNull:
		if p.IsValid() {
			return path + ": library sees non-null"
		}
	case wire.KCap:
		i := p.Interface()
		if !i.IsValid() || uint32(i.Capability()) != v.CapIndex {
			return path + ": capability mismatch"
		}
	case wire.KStruct:
		s := p.Struct()
		if !s.IsValid() {
			return path + ": library sees no struct"
		}
		return libStructMatches(s, v, path)
	case wire.KList:
		l := p.List()
		if !l.IsValid() {
			return path + ": library sees no list"
		}
		if l.Len() != v.Count {
			return path + ": list length mismatch"
		}
		for i := 0; i < v.Count; i++ {
			ok := true
			switch v.Elem {
			case wire.EBit:
				ok = capnp.BitList{List: l}.At(i) == (v.Bytes[i/8]>>(i%8)&1 == 1)
			case wire.EByte:
				ok = capnp.UInt8List{List: l}.At(i) == v.Bytes[i]
			case wire.ETwo:
				ok = capnp.UInt16List{List: l}.At(i) == uint16(v.Bytes[2*i])|uint16(v.Bytes[2*i+1])<<8
			case wire.EFour:
				var x uint32
				for k := 3; k >= 0; k-- {
					x = x<<8 | uint32(v.Bytes[4*i+k])
				}
				ok = capnp.UInt32List{List: l}.At(i) == x
			case wire.EEight:
				var x uint64
				for k := 7; k >= 0; k-- {
					x = x<<8 | uint64(v.Bytes[8*i+k])
				}
				ok = capnp.UInt64List{List: l}.At(i) == x
			case wire.EPtr:
				e, err := capnp.PointerList{List: l}.At(i)
				if err != nil {
					return path + ": " + err.Error()
				}
				if d := libMatches(e, v.Items[i], path+"[]"); d != "" {
					return d
				}
			case wire.EComposite:
				if d := libStructMatches(l.Struct(i), v.Items[i], path+"[]"); d != "" {
					return d
				}
			}
			if !ok {
				return path + ": list element mismatch"
			}
		}
	}
	return ""
}

func libStructMatches(s capnp.Struct, v *wire.Value, path string) string {
	sz := s.Size()
	if int(sz.DataSize) != len(v.Data) || int(sz.PointerCount) != len(v.Ptrs) {
		return path + ": struct size mismatch"
	}
	for i, b := range v.Data {
		if s.Uint8(capnp.DataOffset(i)) != b {
			return path + ": struct data mismatch"
		}
	}
	for i, c := range v.Ptrs {
		p, err := s.Ptr(uint16(i))
		if err != nil {
			return path + ": " + err.Error()
		}
		if d := libMatches(p, c, path+".p"); d != "" {
			return d
		}
	}
	return ""
}

// The library reads what the reference encoder writes, including far and
// double-far pointers and oddly placed zero-sized objects.
func TestXLibraryReadsEncode(t *testing.T) {
	r := rand.New(rand.NewSource(11))
	for i := 0; i < 300; i++ {
		v := wire.RandValue(r.Intn, r.Intn(5), true)
		for _, o := range []wire.EncOpts{
			{}, {SegWords: 2}, {SegWords: 5}, {SegWords: 1 + r.Intn(8), Rand: r.Intn},
			{Rand: r.Intn}, {ForceFar: true, SegWords: 16}, {ForceDoubleFar: true},
		} {
			segs := wire.Encode(v, o)
			if d := libMatches(libRoot(t, segs), v, "root"); d != "" {
				t.Fatalf("library disagrees with model on Encode output: %s\nvalue %v", d, v)
			}
		}
	}
}

// guard runs f, converting a panic inside the library into an error string.
func guard(f func()) (panicked string) {
	defer func() {
		if r := recover(); r != nil {
			panicked = fmt.Sprint(r)
		}
	}()
	f()
	return ""
}

// TestXCanonicalize compares Canonical with the library's Canonicalize.
// Every disagreement is classified objectively:
//
//   - "alt": the library's bytes equal CanonicalOpts{ZeroSizedStructOffsetZero}
//     (a zero-sized struct pointer written with the natural offset instead of
//     the spec's -1; may even come out as an all-zero, i.e. null, word);
//   - "broken": the library's bytes are not a valid message, or do not decode
//     to a value Equal to the input - so they cannot be the canonical form,
//     whatever the spec's fine print;
//   - a panic inside the library.
//
// Anything else would be a genuine difference of interpretation and fails.
func TestXCanonicalize(t *testing.T) {
	r := rand.New(rand.NewSource(12))
	agree, alt, broken, libErr, libPanic := 0, 0, 0, 0, 0
	var firstBroken, firstPanic, firstAlt string
	for i := 0; i < 3000; i++ {
		var v *wire.Value
		if i%2 == 0 {
			v = wire.RandValue(r.Intn, r.Intn(5), false)
		} else {
			v = wire.TinyValue(r, 3)
		}
		want, err := wire.Canonical(v)
		if err != nil {
			t.Fatal(err)
		}
		altForm, _ := wire.CanonicalOpts(v, wire.CanonOpts{ZeroSizedStructOffsetZero: true})
		segs := wire.Encode(v, wire.EncOpts{SegWords: []int{0, 4, 32}[r.Intn(3)]})
		var got []byte
		root := libRoot(t, segs).Struct()
		if p := guard(func() { got, err = capnp.Canonicalize(root) }); p != "" {
			libPanic++
			if msg := p + "\n on " + v.String(); firstPanic == "" || len(msg) < len(firstPanic) {
				firstPanic = msg
			}
			continue
		}
		show := func() string {
			return v.String() + "\n model   " + hexs(want) + "\n library " + hexs(got)
		}
		switch {
		case err != nil:
			libErr++
		case bytes.Equal(got, want):
			agree++
		case bytes.Equal(got, altForm):
			alt++
			if firstAlt == "" {
				firstAlt = show()
			}
		default:
			ok := false
			if _, verr := wire.Validate([][]byte{got}); verr == nil {
				if d, derr := wire.Decode([][]byte{got}, wire.Limits{}); derr == nil && wire.Equal(d, v) {
					ok = true
				}
			}
			if ok {
				t.Errorf("unexplained canonicalization difference:\n%s", show())
			} else {
				broken++
				if msg := show(); firstBroken == "" || len(msg) < len(firstBroken) {
					firstBroken = msg
				}
			}
		}
	}
	t.Logf("Canonicalize: %d agree, %d alt zero-sized-struct form, %d library output not a valid encoding of the value, %d library errors, %d library panics",
		agree, alt, broken, libErr, libPanic)
	if firstAlt != "" {
		t.Logf("shortest alt-form case:\n%s", firstAlt)
	}
	if firstBroken != "" {
		t.Logf("shortest broken library output:\n%s", firstBroken)
	}
	if firstPanic != "" {
		t.Logf("shortest library panic: %s", firstPanic)
	}
}

func hexs(b []byte) string {
	const d = "0123456789abcdef"
	var out []byte
	for i, x := range b {
		if i > 0 && i%8 == 0 {
			out = append(out, ' ')
		}
		out = append(out, d[x>>4], d[x&15])
	}
	return string(out)
}

func hasBitList(v *wire.Value) bool {
	switch v.Kind {
	case wire.KStruct:
		for _, p := range v.Ptrs {
			if hasBitList(p) {
				return true
			}
		}
	case wire.KList:
		if v.Elem == wire.EBit {
			return true
		}
		for _, p := range v.Items {
			if hasBitList(p) {
				return true
			}
		}
	}
	return false
}

// TestXEqual compares Equal with the library's capnp.Equal on pairs that are
// equal by construction (clones, zero-padded copies, decoded canonical forms),
// unequal by construction (one meaningful bit or byte flipped somewhere in the
// tree) and on independent draws from a small value space.  Disagreements are
// tallied; those not involving a bit list (where the library has a known
// defect) fail the test.
func TestXEqual(t *testing.T) {
	r := rand.New(rand.NewSource(13))
	agree, disagree, disagreeBits, libErr, libPanic := 0, 0, 0, 0, 0
	var shortestBits string
	check := func(a, b *wire.Value) {
		pa := libRoot(t, wire.Encode(a, wire.EncOpts{SegWords: 8}))
		pb := libRoot(t, wire.Encode(b, wire.EncOpts{}))
		var got bool
		var err error
		want := wire.Equal(a, b)
		if p := guard(func() { got, err = capnp.Equal(pa, pb) }); p != "" {
			libPanic++
			t.Logf("library Equal panicked: %s\n%v\n%v", p, a, b)
			return
		}
		switch {
		case err != nil:
			libErr++
		case got == want:
			agree++
		default:
			disagree++
			msg := fmt.Sprintf("model %v, library %v:\n%v\n%v", want, got, a, b)
			if hasBitList(a) || hasBitList(b) {
				disagreeBits++
				if shortestBits == "" || len(msg) < len(shortestBits) {
					shortestBits = msg
				}
			} else {
				t.Errorf("Equal disagreement without bit lists: %s", msg)
			}
		}
	}
	for i := 0; i < 1500; i++ {
		// No capabilities here: with an unpopulated capability table the
		// library resolves every capability pointer to the nil client, so two
		// capabilities in different messages compare equal whatever their
		// indices.  The model compares indices; the caller is expected to map
		// capability identity to indices (see wire.Equal).
		a := wire.RandValue(r.Intn, r.Intn(5), false)
		check(a, a.Clone())
		check(a, wire.RandValue(r.Intn, r.Intn(2), false))
		p := wire.PadValue(r, a)
		check(a, p)
		// A decoded canonical form is Equal but differently shaped.
		if c, err := wire.Canonical(a); err == nil {
			d, err := wire.Decode([][]byte{c}, wire.Limits{})
			if err != nil {
				t.Fatal(err)
			}
			check(a, d)
		}
		// Change one meaningful thing somewhere in the tree.
		m := p.Clone()
		if wire.Mutate(r, m) {
			check(a, m)
			check(m, p)
		}
		// Independent draws from a small space (often equal, often via a
		// primitive list / struct list upgrade).
		check(wire.TinyValue(r, 2), wire.TinyValue(r, 2))
	}
	t.Logf("Equal: %d agree, %d disagree (%d involve bit lists), %d library errors, %d library panics", agree, disagree, disagreeBits, libErr, libPanic)
	if shortestBits != "" {
		t.Logf("shortest disagreement involving a bit list: %s", shortestBits)
	}
}

// TestXEqualCorners logs (without judging) the library's verdict on the
// corner cases for which wire.EqOpts offers a choice, next to the model's
// default verdict, so that a caller can pick the matching options.
func TestXEqualCorners(t *testing.T) {
	root := func(p *wire.Value) *wire.Value {
		return &wire.Value{Kind: wire.KStruct, Ptrs: []*wire.Value{p}}
	}
	prim := func(elem, count int, bs ...byte) *wire.Value {
		if bs == nil {
			bs = []byte{}
		}
		return &wire.Value{Kind: wire.KList, Elem: elem, Count: count, Bytes: bs}
	}
	comp := func(dw, pw int, firstBytes ...byte) *wire.Value {
		l := &wire.Value{Kind: wire.KList, Elem: wire.EComposite, Count: len(firstBytes), CompData: dw, CompPtrs: pw}
		for _, b := range firstBytes {
			e := &wire.Value{Kind: wire.KStruct, Data: make([]byte, 8*dw), Ptrs: make([]*wire.Value, pw)}
			if dw > 0 {
				e.Data[0] = b
			}
			for i := range e.Ptrs {
				e.Ptrs[i] = wire.NullValue()
			}
			l.Items = append(l.Items, e)
		}
		return l
	}
	cases := []struct {
		name string
		a, b *wire.Value
	}{
		{"empty byte list vs empty two-byte list", prim(wire.EByte, 0), prim(wire.ETwo, 0)},
		{"empty byte list vs empty pointer list", prim(wire.EByte, 0), &wire.Value{Kind: wire.KList, Elem: wire.EPtr}},
		{"empty void list vs empty bit list", prim(wire.EVoid, 0), prim(wire.EBit, 0)},
		{"empty byte list vs empty composite list", prim(wire.EByte, 0), comp(1, 0)},
		{"byte list [1] vs two-byte list [1]", prim(wire.EByte, 1, 1), prim(wire.ETwo, 1, 1, 0)},
		{"byte list [1,2] vs composite [{1},{2}]", prim(wire.EByte, 2, 1, 2), comp(1, 0, 1, 2)},
		{"void list x2 vs composite of empty structs x2", prim(wire.EVoid, 2), comp(0, 0, 0, 0)},
		{"bit list [1,0] vs composite [{1},{0}]", prim(wire.EBit, 2, 1), comp(1, 0, 1, 0)},
		{"bit list [1,0] vs bit list [1,1]", prim(wire.EBit, 2, 1), prim(wire.EBit, 2, 3)},
		{"bit list [1,0] vs bit list [1,0] with dirty padding", prim(wire.EBit, 2, 1), prim(wire.EBit, 2, 0xfd)},
		{"null vs empty struct", wire.NullValue(), &wire.Value{Kind: wire.KStruct}},
	}
	for _, c := range cases {
		pa := libRoot(t, wire.Encode(root(c.a), wire.EncOpts{}))
		pb := libRoot(t, wire.Encode(root(c.b), wire.EncOpts{}))
		var got bool
		var err error
		verdict := ""
		if p := guard(func() { got, err = capnp.Equal(pa, pb) }); p != "" {
			verdict = "panic: " + p
		} else if err != nil {
			verdict = "error: " + err.Error()
		} else {
			verdict = fmt.Sprint(got)
		}
		t.Logf("%-55s model %-5v library %s", c.name, wire.Equal(root(c.a), root(c.b)), verdict)
	}
}

// Packed framing through the library's public entry points.
func TestXPacked(t *testing.T) {
	r := rand.New(rand.NewSource(14))
	agreePack, differPack := 0, 0
	for i := 0; i < 300; i++ {
		v := wire.RandValue(r.Intn, 4, true)
		frame := wire.BuildFrame(wire.Encode(v, wire.EncOpts{SegWords: []int{0, 8}[r.Intn(2)]}))
		packed := packedref.Pack(frame)

		// Library unpacks the model's packing.
		msg, err := capnp.UnmarshalPacked(packed)
		if err != nil {
			t.Fatalf("UnmarshalPacked: %v", err)
		}
		back, err := msg.Marshal()
		if err != nil {
			t.Fatal(err)
		}
		if !bytes.Equal(back, frame) {
			t.Fatalf("library unpack+marshal differs from original frame")
		}
		// Model unpacks the library's packing.
		msg, err = capnp.Unmarshal(frame)
		if err != nil {
			t.Fatal(err)
		}
		lp, err := msg.MarshalPacked()
		if err != nil {
			t.Fatal(err)
		}
		out, st := packedref.Unpack(lp)
		if st != packedref.OK || !bytes.Equal(out, frame) {
			t.Fatalf("model cannot unpack library packing (status %v)", st)
		}
		if bytes.Equal(lp, packed) {
			agreePack++
		} else {
			differPack++
		}
	}
	t.Logf("packings byte-identical: %d, different but equivalent: %d", agreePack, differPack)
}
