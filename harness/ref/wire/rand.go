package wire

// RandValue generates a random, well-formed struct Value.
//
// r must return a number in [0,n) for n > 0 (e.g. (*math/rand.Rand).Intn).
// depth (clamped to 0..4) is the maximum number of object levels below the
// root.  Structs have 0-4 data words and 0-4 pointers; lists have 0-9
// elements of any element kind; composite elements have 0-3 data words and
// 0-2 pointers.  Capabilities (index 0-3) appear only when allowCaps is set.
//
// Data is biased towards zeros (whole zero words, zero bytes) so that
// canonical truncation, zero-extension in Equal and packing are exercised.
// Bit lists have clean (zero) padding bits.
func RandValue(r func(n int) int, depth int, allowCaps bool) *Value {
	depth = min(max(depth, 0), 4)
	g := &gen{r: r, caps: allowCaps}
	return g.structOf(r(5), r(5), depth)
}

type gen struct {
	r    func(n int) int
	caps bool
}

// dataBytes returns n random bytes with a bias towards zero.
func (g *gen) dataBytes(n int) []byte {
	b := make([]byte, n)
	for i := 0; i < n; i += 8 {
		if g.r(3) == 0 {
			continue // leave (up to) a whole word zero
		}
		for j := i; j < n && j < i+8; j++ {
			if g.r(3) != 0 {
				b[j] = byte(g.r(256))
			}
		}
	}
	return b
}

// structOf builds a struct with the given section sizes; its pointers may
// refer to objects at most depth levels deep.
func (g *gen) structOf(dataWords, ptrs, depth int) *Value {
	v := &Value{Kind: KStruct, Data: g.dataBytes(8 * dataWords), Ptrs: make([]*Value, ptrs)}
	for i := range v.Ptrs {
		v.Ptrs[i] = g.pointer(depth)
	}
	return v
}

// pointer builds a random pointer value; depth is the number of object levels
// it may occupy (0: only null or a capability).
func (g *gen) pointer(depth int) *Value {
	if depth <= 0 {
		if g.caps && g.r(2) == 0 {
			return &Value{Kind: KCap, CapIndex: uint32(g.r(4))}
		}
		return NullValue()
	}
	switch k := g.r(10); {
	case k < 2:
		return NullValue()
	case k < 3 && g.caps:
		return &Value{Kind: KCap, CapIndex: uint32(g.r(4))}
	case k < 6:
		return g.structOf(g.r(5), g.r(5), depth-1)
	default:
		return g.list(depth)
	}
}

// list builds a random list occupying at most depth levels (depth >= 1).
func (g *gen) list(depth int) *Value {
	v := &Value{Kind: KList, Elem: g.r(8), Count: g.r(10)}
	switch {
	case v.Elem <= EEight:
		v.Bytes = g.dataBytes(listByteLen(v.Elem, v.Count))
		if v.Elem == EBit && len(v.Bytes) > 0 {
			v.Bytes[len(v.Bytes)-1] &= bitMask(v.Count)
		}
	case v.Elem == EPtr:
		v.Items = make([]*Value, v.Count)
		for i := range v.Items {
			v.Items[i] = g.pointer(depth - 1)
		}
	default:
		v.CompData, v.CompPtrs = g.r(4), g.r(3)
		v.Items = make([]*Value, v.Count)
		for i := range v.Items {
			v.Items[i] = g.structOf(v.CompData, v.CompPtrs, depth-1)
		}
	}
	return v
}
