package wire

import "fmt"

// Extent is a run of words occupied by one reachable object.
type Extent struct {
	Seg   int    // segment index
	Off   int    // first word
	Words int    // length in words (0 for zero-sized objects)
	What  string // "root", "struct", "list", "composite", "pad", "doublepad"
}

// Report is what Validate learned about a structurally valid message.
//
// Every non-null pointer word reachable from the root (the root pointer,
// struct pointer sections, pointer list elements, composite element pointer
// sections) is classified as exactly one of NearPtrs, FarPtrs, DoubleFarPtrs
// or Caps.
type Report struct {
	NearPtrs      int // struct/list pointers that address their target directly
	FarPtrs       int // far pointers with a one-word landing pad
	DoubleFarPtrs int // far pointers with a two-word landing pad
	Caps          int // capability pointers
	NullPtrs      int // all-zero pointer words

	Structs          int // struct objects (composite list elements not counted)
	Lists            int // list objects of all element kinds
	CompositeLists   int // subset of Lists with element code 7
	CompositeElems   int // total number of composite list elements
	ZeroSizedStructs int // subset of Structs with no data and no pointers
	Objects          int // Structs + Lists

	// NullLandingPads counts far pointers whose one-word landing pad was an
	// all-zero word (decoded as null; see the package documentation).
	NullLandingPads int

	// UnreachableNonZeroWords is the number of non-zero words that are not
	// part of the root pointer, any reachable object or any landing pad.
	// Informational only.
	UnreachableNonZeroWords int

	// Extents lists the root pointer word, every reachable object and every
	// landing pad, in pre-order of discovery.  Zero-sized objects appear with
	// Words == 0 and take no part in the overlap check.
	Extents []Extent
}

type validator struct {
	segs    [][]byte
	claimed [][]bool // per segment, per word: already part of some extent
	rep     *Report
}

// claim records an extent and fails if any of its words is already taken.
func (va *validator) claim(seg, off, words int, what string) error {
	va.rep.Extents = append(va.rep.Extents, Extent{Seg: seg, Off: off, Words: words, What: what})
	c := va.claimed[seg]
	for i := off; i < off+words; i++ {
		if c[i] {
			return fmt.Errorf("%w: %s at seg %d words [%d,%d) overlaps another object at word %d", ErrOverlap, what, seg, off, off+words, i)
		}
		c[i] = true
	}
	return nil
}

// Validate checks everything Decode checks and, in addition, that the extents
// of all reachable objects and landing pads are pairwise disjoint (zero-sized
// objects exempt).  Because of the disjointness requirement every word is
// visited at most once, so no Limits are needed and the running time is linear
// in the message size.  Errors wrap ErrInvalid or ErrOverlap.
func Validate(segs [][]byte) (*Report, error) {
	if err := checkSegments(segs); err != nil {
		return nil, err
	}
	va := &validator{segs: segs, rep: &Report{}}
	va.claimed = make([][]bool, len(segs))
	for i, s := range segs {
		va.claimed[i] = make([]bool, len(s)/8)
	}
	rep := va.rep

	if err := va.claim(0, 0, 1, "root"); err != nil {
		return nil, err
	}

	// Explicit stack of pointer locations still to visit (no recursion, so a
	// long chain of objects cannot exhaust the goroutine stack).  Children are
	// pushed in reverse so that they are popped in pre-order.
	type loc struct{ seg, off int }
	stack := []loc{{0, 0}}
	pushPtrs := func(seg, off, n int) {
		for i := n - 1; i >= 0; i-- {
			stack = append(stack, loc{seg, off + i})
		}
	}

	for len(stack) > 0 {
		l := stack[len(stack)-1]
		stack = stack[:len(stack)-1]

		o, err := resolve(segs, l.seg, l.off)
		if err != nil {
			return nil, err
		}

		// Classify the pointer word and claim its landing pad.
		switch o.hops {
		case 1:
			rep.FarPtrs++
			if o.nullPad {
				rep.NullLandingPads++
			}
			if err := va.claim(o.padSeg, o.padOff, 1, "pad"); err != nil {
				return nil, err
			}
		case 2:
			rep.DoubleFarPtrs++
			if err := va.claim(o.padSeg, o.padOff, 2, "doublepad"); err != nil {
				return nil, err
			}
		default:
			switch o.kind {
			case KNull:
				rep.NullPtrs++
			case KCap:
				rep.Caps++
			default:
				rep.NearPtrs++
			}
		}

		switch o.kind {
		case KStruct:
			rep.Structs++
			rep.Objects++
			if o.words == 0 {
				rep.ZeroSizedStructs++
			}
			if err := va.claim(o.seg, o.off, o.words, "struct"); err != nil {
				return nil, err
			}
			pushPtrs(o.seg, o.off+o.dataWords, o.ptrWords)

		case KList:
			rep.Lists++
			rep.Objects++
			what := "list"
			if o.elem == EComposite {
				what = "composite"
				rep.CompositeLists++
				rep.CompositeElems += o.count
			}
			if err := va.claim(o.seg, o.off, o.words, what); err != nil {
				return nil, err
			}
			switch o.elem {
			case EPtr:
				pushPtrs(o.seg, o.off, o.count)
			case EComposite:
				// Only iterate when elements have pointers; this also keeps
				// zero-sized elements (whose count is unbounded) cheap.
				if o.ptrWords > 0 {
					stride := o.dataWords + o.ptrWords
					for i := o.count - 1; i >= 0; i-- {
						pushPtrs(o.seg, o.off+1+i*stride+o.dataWords, o.ptrWords)
					}
				}
			}
		}
	}

	for si, s := range segs {
		for wi, taken := range va.claimed[si] {
			if !taken && getWord(s, wi) != 0 {
				rep.UnreachableNonZeroWords++
			}
		}
	}
	return rep, nil
}
