package wire

import (
	"encoding/binary"
	"errors"
)

// Stream framing (spec: "Serialization Over a Stream"):
//
//	(4 bytes) number of segments minus one
//	(N * 4 bytes) size of each segment in words
//	(0 or 4 bytes) padding to an 8-byte boundary
//	the content of each segment, in order

var (
	// ErrEmpty: the stream has no bytes at all (a clean end of stream).
	ErrEmpty = errors.New("wire: empty stream")
	// ErrShort: the stream ends before the frame is complete.
	ErrShort = errors.New("wire: truncated frame")
)

// ParseFrame parses one frame from the front of stream.  It returns the
// segments (sub-slices of stream, with capacity clipped), and the number of
// bytes the frame occupies.  It returns ErrEmpty for a zero-length stream and
// ErrShort if the stream ends anywhere inside the frame.  No limit is placed
// on the number or size of segments beyond what the stream actually contains.
func ParseFrame(stream []byte) (segs [][]byte, consumed int, err error) {
	if len(stream) == 0 {
		return nil, 0, ErrEmpty
	}
	if len(stream) < 4 {
		return nil, 0, ErrShort
	}
	nsegs := uint64(binary.LittleEndian.Uint32(stream)) + 1
	hdr := (4 + 4*nsegs + 7) &^ 7 // count word + size table, padded to 8
	if hdr > uint64(len(stream)) {
		return nil, 0, ErrShort
	}
	// The whole header is present, so nsegs <= len(stream)/4 and the loop
	// below is bounded by the input size.
	total := hdr
	sizes := make([]uint64, nsegs)
	for i := range sizes {
		sizes[i] = 8 * uint64(binary.LittleEndian.Uint32(stream[4+4*i:]))
		total += sizes[i]
		if total > uint64(len(stream)) {
			return nil, 0, ErrShort // also prevents overflow of total
		}
	}
	segs = make([][]byte, nsegs)
	at := hdr
	for i, sz := range sizes {
		segs[i] = stream[at : at+sz : at+sz]
		at += sz
	}
	return segs, int(total), nil
}

// FrameBoundaries splits stream into consecutive complete frames.  ends holds
// the end offset of each complete frame; trailing is the number of bytes after
// the last complete frame (0 if the stream ends exactly on a frame boundary).
func FrameBoundaries(stream []byte) (ends []int, trailing int) {
	at := 0
	for {
		_, n, err := ParseFrame(stream[at:])
		if err != nil {
			return ends, len(stream) - at
		}
		at += n
		ends = append(ends, at)
	}
}

// BuildFrame frames segs for a stream.  It panics if there are no segments or
// a segment is not a whole number of words.
func BuildFrame(segs [][]byte) []byte {
	if len(segs) == 0 {
		panic("wire.BuildFrame: a message has at least one segment")
	}
	hdr := (4 + 4*len(segs) + 7) &^ 7
	out := make([]byte, hdr, hdr+totalLen(segs))
	binary.LittleEndian.PutUint32(out, uint32(len(segs)-1))
	for i, s := range segs {
		if len(s)%8 != 0 {
			panic("wire.BuildFrame: segment length is not a multiple of 8")
		}
		binary.LittleEndian.PutUint32(out[4+4*i:], uint32(len(s)/8))
	}
	for _, s := range segs {
		out = append(out, s...)
	}
	return out
}

func totalLen(segs [][]byte) int {
	n := 0
	for _, s := range segs {
		n += len(s)
	}
	return n
}
