package wire

import (
	"bytes"
	"encoding/binary"
	"encoding/hex"
	"errors"
	"fmt"
	"math/rand"
	"testing"
)

// ---------------------------------------------------------------------------
// Helpers
// ---------------------------------------------------------------------------

// words builds a segment from 64-bit words.
func words(ws ...uint64) []byte {
	b := make([]byte, 8*len(ws))
	for i, w := range ws {
		binary.LittleEndian.PutUint64(b[8*i:], w)
	}
	return b
}

func mustDecode(t *testing.T, segs [][]byte) *Value {
	t.Helper()
	v, err := Decode(segs, Limits{})
	if err != nil {
		t.Fatalf("Decode: %v", err)
	}
	if err := v.Check(); err != nil {
		t.Fatalf("Decode produced a malformed Value: %v", err)
	}
	return v
}

func mustCanon(t *testing.T, v *Value) []byte {
	t.Helper()
	c, err := Canonical(v)
	if err != nil {
		t.Fatalf("Canonical: %v\n%v", err, v)
	}
	return c
}

func totalWords(segs [][]byte) int {
	n := 0
	for _, s := range segs {
		n += len(s) / 8
	}
	return n
}

// encVariants returns a spread of encoder configurations.
func encVariants(r *rand.Rand) []EncOpts {
	var out []EncOpts
	for _, sw := range []int{0, 1, 2, 3, 4, 5, 6, 7, 8, 11, 16, 64, 1000} {
		out = append(out,
			EncOpts{SegWords: sw},
			EncOpts{SegWords: sw, Rand: r.Intn},
			EncOpts{SegWords: sw, ForceFar: true},
			EncOpts{SegWords: sw, ForceDoubleFar: true},
		)
	}
	return out
}

func (o EncOpts) String() string {
	return fmt.Sprintf("{SegWords:%d Rand:%v ForceFar:%v ForceDoubleFar:%v}", o.SegWords, o.Rand != nil, o.ForceFar, o.ForceDoubleFar)
}

// ---------------------------------------------------------------------------
// Pointer field helpers
// ---------------------------------------------------------------------------

func TestPointerFields(t *testing.T) {
	// Struct pointer, offset -1, zero sizes: the spec's recommended encoding
	// of a zero-sized struct.
	if w := mkStructPtr(-1, 0, 0); w != 0x00000000fffffffc {
		t.Errorf("zero-sized struct pointer = %#x", w)
	}
	w := mkStructPtr(-5, 3, 7)
	if ptrType(w) != ptrStruct || ptrOffset(w) != -5 || structDataWords(w) != 3 || structPtrWords(w) != 7 {
		t.Errorf("struct ptr round trip: %#x", w)
	}
	w = mkListPtr(1<<29-1, EFour, 1<<29-1)
	if ptrType(w) != ptrList || ptrOffset(w) != 1<<29-1 || listElemCode(w) != EFour || listCountField(w) != 1<<29-1 {
		t.Errorf("list ptr round trip: %#x", w)
	}
	w = mkListPtr(-(1 << 29), EComposite, 0)
	if ptrOffset(w) != -(1<<29) || listElemCode(w) != 7 {
		t.Errorf("list ptr min offset: %#x", w)
	}
	w = mkFarPtr(true, 1<<29-1, 0xfffffffe)
	if ptrType(w) != ptrFar || !farIsDouble(w) || farPadOffset(w) != 1<<29-1 || farSegment(w) != 0xfffffffe {
		t.Errorf("far ptr round trip: %#x", w)
	}
	w = mkCapPtr(0xdeadbeef)
	if ptrType(w) != ptrOther || ptrUpper30(w) != 0 || capIndex(w) != 0xdeadbeef {
		t.Errorf("cap ptr round trip: %#x", w)
	}
	// Composite tag with maximal count.
	w = mkStructPtr(maxCompositeCount, 0, 0)
	if ptrType(w) != ptrStruct || ptrUpper30(w) != maxCompositeCount {
		t.Errorf("tag round trip: %#x", w)
	}
}

// ---------------------------------------------------------------------------
// Hand-assembled messages
// ---------------------------------------------------------------------------

// A message assembled by hand from the spec's bit layouts.
func TestDecodeHandBuilt(t *testing.T) {
	seg := words(
		// 0: root struct pointer: offset 0, 1 data word, 2 pointers
		0x0002_0001_0000_0000,
		// 1: data
		0x1122334455667788,
		// 2: ptr 0: byte list, offset 1 (skips word 3), elem 2, count 3
		uint64(ptrList)|1<<2|uint64(EByte)<<32|3<<35,
		// 3: ptr 1: composite list, offset 1 (target word 5), word count 4
		uint64(ptrList)|1<<2|uint64(EComposite)<<32|4<<35,
		// 4: byte list body "abc"
		0x0000000000636261,
		// 5: tag: 2 elements, 1 data word, 1 pointer
		2<<2|1<<32|1<<48,
		// 6,7: element 0: data, pointer to zero-sized struct (offset -1)
		0xaa, 0x00000000fffffffc,
		// 8,9: element 1: data, capability 5
		0xbb, uint64(ptrOther)|5<<32,
	)
	v := mustDecode(t, [][]byte{seg})
	want := &Value{Kind: KStruct,
		Data: []byte{0x88, 0x77, 0x66, 0x55, 0x44, 0x33, 0x22, 0x11},
		Ptrs: []*Value{
			{Kind: KList, Elem: EByte, Count: 3, Bytes: []byte("abc")},
			{Kind: KList, Elem: EComposite, Count: 2, CompData: 1, CompPtrs: 1, Items: []*Value{
				{Kind: KStruct, Data: []byte{0xaa, 0, 0, 0, 0, 0, 0, 0}, Ptrs: []*Value{{Kind: KStruct, Data: []byte{}, Ptrs: []*Value{}}}},
				{Kind: KStruct, Data: []byte{0xbb, 0, 0, 0, 0, 0, 0, 0}, Ptrs: []*Value{{Kind: KCap, CapIndex: 5}}},
			}},
		}}
	if !DeepEqual(v, want) {
		t.Fatalf("got  %v\nwant %v", v, want)
	}
	rep, err := Validate([][]byte{seg})
	if err != nil {
		t.Fatal(err)
	}
	if rep.NearPtrs != 4 || rep.Caps != 1 || rep.Structs != 2 || rep.Lists != 2 || rep.CompositeLists != 1 ||
		rep.ZeroSizedStructs != 1 || rep.Objects != 4 || rep.CompositeElems != 2 || rep.UnreachableNonZeroWords != 0 ||
		rep.FarPtrs != 0 || rep.DoubleFarPtrs != 0 || rep.NullPtrs != 0 {
		t.Errorf("report: %+v", rep)
	}
	wantExt := []Extent{{0, 0, 1, "root"}, {0, 1, 3, "struct"}, {0, 4, 1, "list"}, {0, 5, 5, "composite"}, {0, 7, 0, "struct"}}
	if fmt.Sprint(rep.Extents) != fmt.Sprint(wantExt) {
		t.Errorf("extents: %v want %v", rep.Extents, wantExt)
	}
	if s := v.String(); s != "S(d=8877665544332211, p=[L2x3(616263), L7x2<1,1>[S(d=aa00000000000000, p=[S(d=, p=[])]), S(d=bb00000000000000, p=[cap(5)])]])" {
		t.Errorf("String: %s", s)
	}
}

// Far and double-far pointers assembled by hand.
func TestDecodeFarHandBuilt(t *testing.T) {
	seg0 := words(
		// root: far pointer, single pad, pad at word 1 of segment 1
		uint64(ptrFar) | 1<<3 | 1<<32,
	)
	seg1 := words(
		// 0: struct body: one pointer (the struct is placed before its pad)
		// -> double-far pointer, pad at word 0 of segment 2
		uint64(ptrFar)|1<<2|0<<3|2<<32,
		// 1: landing pad: struct pointer, offset -2 (target word 0), 0 data, 1 ptr
		mkStructPtr(-2, 0, 1),
	)
	seg2 := words(
		// 0: double-far pad word 0: far pointer to segment 3 word 1
		uint64(ptrFar)|1<<3|3<<32,
		// 1: tag: list of 2 two-byte elements, offset 0
		mkListPtr(0, ETwo, 2),
	)
	seg3 := words(
		0xdeadbeefdeadbeef, // unreachable junk
		0x0000000004030201,
	)
	segs := [][]byte{seg0, seg1, seg2, seg3}
	v := mustDecode(t, segs)
	want := &Value{Kind: KStruct, Ptrs: []*Value{{Kind: KList, Elem: ETwo, Count: 2, Bytes: []byte{1, 2, 3, 4}}}}
	if !DeepEqual(v, want) {
		t.Fatalf("got %v want %v", v, want)
	}
	rep, err := Validate(segs)
	if err != nil {
		t.Fatal(err)
	}
	if rep.FarPtrs != 1 || rep.DoubleFarPtrs != 1 || rep.NearPtrs != 0 || rep.UnreachableNonZeroWords != 1 {
		t.Errorf("report: %+v", rep)
	}

	// Double-far to a composite list: the inner far pointer addresses the tag
	// word; the pad's tag word carries the word count.
	a := words(uint64(ptrFar)|1<<2|1<<3|0<<32, // root: double far, pad at seg 0 word 1
		uint64(ptrFar)|0<<3|1<<32,   // pad 0: far to seg 1 word 0
		mkListPtr(0, EComposite, 2), // pad 1: tag, composite, 2 words
	)
	b := words(mkStructPtr(2, 1, 0), 7, 9)
	v = mustDecode(t, [][]byte{a, b})
	if v.Kind != KList || v.Elem != EComposite || v.Count != 2 || v.Items[1].Data[0] != 9 {
		t.Fatalf("double-far composite: %v", v)
	}
	if _, err := Validate([][]byte{a, b}); err != nil {
		t.Fatal(err)
	}
}

func TestNullLandingPad(t *testing.T) {
	segs := [][]byte{words(uint64(ptrFar)|1<<3|0<<32, 0)}
	v := mustDecode(t, segs)
	if v.Kind != KNull {
		t.Fatalf("got %v", v)
	}
	rep, err := Validate(segs)
	if err != nil || rep.NullLandingPads != 1 || rep.FarPtrs != 1 {
		t.Fatalf("%+v %v", rep, err)
	}
	// A zero double-far tag is a zero-sized struct, not null.
	segs = [][]byte{words(uint64(ptrFar)|1<<2|1<<3, uint64(ptrFar)|0<<3, 0)}
	v = mustDecode(t, segs)
	if v.Kind != KStruct || len(v.Data) != 0 || len(v.Ptrs) != 0 {
		t.Fatalf("got %v", v)
	}
}

// ---------------------------------------------------------------------------
// Corrupt messages
// ---------------------------------------------------------------------------

func TestRejectCorrupt(t *testing.T) {
	far := func(double bool, off, seg int) uint64 { return mkFarPtr(double, off, seg) }
	cases := []struct {
		name    string
		segs    [][]byte
		want    error // for Validate
		decode  error // for Decode; nil means Decode accepts
		skipDec bool
	}{
		{name: "no segments", segs: nil, want: ErrInvalid, decode: ErrInvalid},
		{name: "empty segment 0", segs: [][]byte{{}}, want: ErrInvalid, decode: ErrInvalid},
		{name: "misaligned segment", segs: [][]byte{make([]byte, 12)}, want: ErrInvalid, decode: ErrInvalid},
		{name: "misaligned later segment", segs: [][]byte{words(0), make([]byte, 9)}, want: ErrInvalid, decode: ErrInvalid},
		{name: "struct past end",
			segs: [][]byte{words(mkStructPtr(0, 1, 1), 0)}, want: ErrInvalid, decode: ErrInvalid},
		{name: "struct before start",
			segs: [][]byte{words(mkStructPtr(-2, 1, 0), 0)}, want: ErrInvalid, decode: ErrInvalid},
		{name: "zero-sized struct before start",
			segs: [][]byte{words(mkStructPtr(-2, 0, 0))}, want: ErrInvalid, decode: ErrInvalid},
		{name: "zero-sized struct past end",
			segs: [][]byte{words(mkStructPtr(1, 0, 0))}, want: ErrInvalid, decode: ErrInvalid},
		{name: "byte list past end",
			segs: [][]byte{words(mkListPtr(0, EByte, 9), 0)}, want: ErrInvalid, decode: ErrInvalid},
		{name: "bit list past end",
			segs: [][]byte{words(mkListPtr(0, EBit, 65), 0)}, want: ErrInvalid, decode: ErrInvalid},
		{name: "pointer list past end",
			segs: [][]byte{words(mkListPtr(0, EPtr, 2), 0)}, want: ErrInvalid, decode: ErrInvalid},
		{name: "huge list count",
			segs: [][]byte{words(mkListPtr(0, EEight, maxListCount), 0)}, want: ErrInvalid, decode: ErrInvalid},
		{name: "void list target out of bounds",
			segs: [][]byte{words(mkListPtr(5, EVoid, 3))}, want: ErrInvalid, decode: ErrInvalid},
		{name: "composite tag past end",
			segs: [][]byte{words(mkListPtr(0, EComposite, 0))}, want: ErrInvalid, decode: ErrInvalid},
		{name: "composite body past end",
			segs: [][]byte{words(mkListPtr(0, EComposite, 2), mkStructPtr(2, 1, 0), 0)}, want: ErrInvalid, decode: ErrInvalid},
		{name: "composite count mismatch (too few words)",
			segs: [][]byte{words(mkListPtr(0, EComposite, 2), mkStructPtr(3, 1, 0), 0, 0)}, want: ErrInvalid, decode: ErrInvalid},
		{name: "composite count mismatch (slack)",
			segs: [][]byte{words(mkListPtr(0, EComposite, 3), mkStructPtr(1, 1, 1), 0, 0, 0)}, want: ErrInvalid, decode: ErrInvalid},
		{name: "composite zero-size elements but nonzero words",
			segs: [][]byte{words(mkListPtr(0, EComposite, 1), mkStructPtr(5, 0, 0), 0)}, want: ErrInvalid, decode: ErrInvalid},
		{name: "composite tag is a list pointer",
			segs: [][]byte{words(mkListPtr(0, EComposite, 0), mkListPtr(0, 0, 0))}, want: ErrInvalid, decode: ErrInvalid},
		{name: "composite tag is a far pointer",
			segs: [][]byte{words(mkListPtr(0, EComposite, 0), far(false, 0, 0))}, want: ErrInvalid, decode: ErrInvalid},
		{name: "unknown other pointer",
			segs: [][]byte{words(uint64(ptrOther) | 1<<2)}, want: ErrInvalid, decode: ErrInvalid},
		{name: "far to missing segment",
			segs: [][]byte{words(far(false, 0, 1))}, want: ErrInvalid, decode: ErrInvalid},
		{name: "far to huge segment id",
			segs: [][]byte{words(far(false, 0, 0xffffffff))}, want: ErrInvalid, decode: ErrInvalid},
		{name: "far pad out of bounds",
			segs: [][]byte{words(far(false, 0, 1)), {}}, want: ErrInvalid, decode: ErrInvalid},
		{name: "far pad is far",
			segs: [][]byte{words(far(false, 1, 0), far(false, 2, 0), mkStructPtr(-1, 0, 0))}, want: ErrInvalid, decode: ErrInvalid},
		{name: "far pad is capability",
			segs: [][]byte{words(far(false, 1, 0), mkCapPtr(1))}, want: ErrInvalid, decode: ErrInvalid},
		{name: "far pad target out of bounds",
			segs: [][]byte{words(far(false, 0, 1)), words(mkStructPtr(0, 1, 0))}, want: ErrInvalid, decode: ErrInvalid},
		{name: "double-far pad out of bounds",
			segs: [][]byte{words(far(true, 0, 1)), words(far(false, 0, 0))}, want: ErrInvalid, decode: ErrInvalid},
		{name: "double-far pad word 0 not far",
			segs: [][]byte{words(far(true, 1, 0), mkStructPtr(0, 0, 0)|1<<32, mkStructPtr(0, 1, 0), 0)}, want: ErrInvalid, decode: ErrInvalid},
		{name: "double-far pad word 0 is double-far",
			segs: [][]byte{words(far(true, 1, 0), far(true, 3, 0), mkStructPtr(0, 1, 0), 0)}, want: ErrInvalid, decode: ErrInvalid},
		{name: "double-far pad to missing segment",
			segs: [][]byte{words(far(true, 1, 0), far(false, 0, 7), mkStructPtr(0, 1, 0), 0)}, want: ErrInvalid, decode: ErrInvalid},
		{name: "double-far tag nonzero offset",
			segs: [][]byte{words(far(true, 1, 0), far(false, 3, 0), mkStructPtr(1, 1, 0), 0)}, want: ErrInvalid, decode: ErrInvalid},
		{name: "double-far tag is far",
			segs: [][]byte{words(far(true, 1, 0), far(false, 3, 0), far(false, 3, 0), 0)}, want: ErrInvalid, decode: ErrInvalid},
		{name: "double-far tag is cap",
			segs: [][]byte{words(far(true, 1, 0), far(false, 3, 0), mkCapPtr(0), 0)}, want: ErrInvalid, decode: ErrInvalid},
		{name: "double-far content out of bounds",
			segs: [][]byte{words(far(true, 1, 0), far(false, 3, 0), mkStructPtr(0, 2, 0), 0)}, want: ErrInvalid, decode: ErrInvalid},

		// Overlaps: accepted by Decode, rejected by Validate.
		{name: "struct overlaps root pointer",
			segs: [][]byte{words(mkStructPtr(-1, 1, 0))}, want: ErrOverlap},
		{name: "two pointers to one object",
			segs: [][]byte{words(mkStructPtr(0, 0, 2), mkListPtr(1, EByte, 8), mkListPtr(0, EByte, 8), 0x0102030405060708)}, want: ErrOverlap},
		{name: "partially overlapping lists",
			segs: [][]byte{words(mkStructPtr(0, 0, 2), mkListPtr(1, EEight, 2), mkListPtr(1, EEight, 2), 1, 2, 3)}, want: ErrOverlap},
		{name: "child overlaps parent",
			segs: [][]byte{words(mkStructPtr(0, 1, 1), 5, mkStructPtr(-2, 1, 0))}, want: ErrOverlap},
		{name: "landing pad inside object",
			segs: [][]byte{words(far(false, 1, 0), mkStructPtr(-1, 1, 0))}, want: ErrOverlap},
		{name: "composite element pointer into own list",
			segs: [][]byte{words(mkListPtr(0, EComposite, 1), mkStructPtr(1, 0, 1), mkListPtr(-1, EByte, 1))}, want: ErrOverlap},
		{name: "self-referential pointer list (cycle)",
			segs: [][]byte{words(mkListPtr(0, EPtr, 1), mkListPtr(-1, EPtr, 1))}, want: ErrOverlap, decode: ErrLimit},
	}
	for _, c := range cases {
		t.Run(c.name, func(t *testing.T) {
			rep, err := Validate(c.segs)
			if !errors.Is(err, c.want) {
				t.Errorf("Validate: got (%+v, %v), want %v", rep, err, c.want)
			}
			v, err := Decode(c.segs, Limits{})
			if c.decode == nil {
				if err != nil {
					t.Errorf("Decode: unexpected error %v", err)
				}
			} else if !errors.Is(err, c.decode) {
				t.Errorf("Decode: got (%v, %v), want %v", v, err, c.decode)
			}
		})
	}
}

func TestLimits(t *testing.T) {
	// Chain of n nested one-pointer structs ending in null.
	chain := func(n int) [][]byte {
		ws := make([]uint64, n+1)
		for i := 0; i < n; i++ {
			ws[i] = mkStructPtr(0, 0, 1)
		}
		return [][]byte{words(ws...)}
	}
	if _, err := Decode(chain(10), Limits{MaxDepth: 10}); err != nil {
		t.Errorf("depth 10 within limit 10: %v", err)
	}
	if _, err := Decode(chain(11), Limits{MaxDepth: 10}); !errors.Is(err, ErrLimit) {
		t.Errorf("depth 11 with limit 10: %v", err)
	}
	if _, err := Decode(chain(64), Limits{}); err != nil {
		t.Errorf("default depth: %v", err)
	}
	if _, err := Decode(chain(65), Limits{}); !errors.Is(err, ErrLimit) {
		t.Errorf("default depth exceeded: %v", err)
	}
	if _, err := Decode(chain(10), Limits{MaxNodes: 9}); !errors.Is(err, ErrLimit) {
		t.Errorf("10 nodes with limit 9: %v", err)
	}
	if _, err := Decode(chain(10), Limits{MaxNodes: 10}); err != nil {
		t.Errorf("10 nodes with limit 10: %v", err)
	}
	// Validate handles a very long chain without recursion.
	if rep, err := Validate(chain(200000)); err != nil || rep.Structs != 200000 {
		t.Errorf("long chain: %v", err)
	}

	// Amplification: composite list of 2^30-1 zero-sized elements in 2 words.
	amp := [][]byte{words(mkListPtr(0, EComposite, 0), mkStructPtr(maxCompositeCount, 0, 0))}
	if _, err := Decode(amp, Limits{}); !errors.Is(err, ErrLimit) {
		t.Errorf("amplification: %v", err)
	}
	rep, err := Validate(amp)
	if err != nil || rep.CompositeElems != maxCompositeCount {
		t.Errorf("amplification Validate: %+v %v", rep, err)
	}
	// A small such list decodes fine.
	small := [][]byte{words(mkListPtr(0, EComposite, 0), mkStructPtr(3, 0, 0))}
	v := mustDecode(t, small)
	if v.Count != 3 || len(v.Items) != 3 || v.CompData != 0 {
		t.Errorf("%v", v)
	}
	// Void list with a huge count is a single node.
	void := [][]byte{words(mkListPtr(0, EVoid, maxListCount))}
	v = mustDecode(t, void)
	if v.Count != maxListCount || len(v.Bytes) != 0 {
		t.Errorf("%v", v)
	}

	// Aliasing amplification: a pointer list whose 16 entries all point at
	// the same 16-entry pointer list, etc.  MaxWords / MaxNodes stop it.
	var ws []uint64
	const levels, fan = 8, 16
	ws = append(ws, mkListPtr(0, EPtr, fan)) // root -> level 1
	for l := 1; l < levels; l++ {
		for i := 0; i < fan; i++ {
			// Entry i of this level sits fan-i words before the next level's
			// list, which all entries share.
			ws = append(ws, mkListPtr(fan-1-i, EPtr, fan))
		}
	}
	ws = append(ws, make([]uint64, fan)...) // last level: all null
	if _, err := Decode([][]byte{words(ws...)}, Limits{MaxDepth: 100}); !errors.Is(err, ErrLimit) {
		t.Errorf("aliasing amplification: %v", err)
	}
}

// ---------------------------------------------------------------------------
// Encode / Decode / Validate round trips
// ---------------------------------------------------------------------------

func TestRoundTripRandom(t *testing.T) {
	r := rand.New(rand.NewSource(1))
	var tot Report
	n := 0
	for iter := 0; iter < 300; iter++ {
		v := RandValue(r.Intn, r.Intn(5), true)
		if err := v.Check(); err != nil {
			t.Fatalf("RandValue produced malformed value: %v", err)
		}
		for _, o := range encVariants(r) {
			segs := Encode(v, o)
			rep, err := Validate(segs)
			if err != nil {
				t.Fatalf("iter %d opts %v: Validate: %v\nvalue %v", iter, o, err, v)
			}
			got, err := Decode(segs, Limits{})
			if err != nil {
				t.Fatalf("iter %d opts %v: Decode: %v", iter, o, err)
			}
			if !DeepEqual(got, v) {
				t.Fatalf("iter %d opts %v: round trip mismatch\n got %v\nwant %v", iter, o, got, v)
			}
			if !Equal(got, v) || !Equal(v, got) {
				t.Fatalf("iter %d: DeepEqual but not Equal", iter)
			}
			// The encoder leaves no gaps: every word belongs to an extent.
			sum := 0
			for _, e := range rep.Extents {
				sum += e.Words
			}
			if sum != totalWords(segs) || rep.UnreachableNonZeroWords != 0 {
				t.Fatalf("iter %d opts %v: extents cover %d of %d words, %d unreachable", iter, o, sum, totalWords(segs), rep.UnreachableNonZeroWords)
			}
			if rep.Objects != rep.Structs+rep.Lists {
				t.Fatalf("Objects %d != Structs %d + Lists %d", rep.Objects, rep.Structs, rep.Lists)
			}
			// Segment size limit is respected except by single-object segments.
			if o.SegWords > 0 {
				for i, s := range segs {
					if len(s)/8 > o.SegWords {
						// must consist of exactly one extent
						cnt := 0
						for _, e := range rep.Extents {
							if e.Seg == i && e.Words > 0 {
								cnt++
							}
						}
						if cnt != 1 {
							t.Fatalf("iter %d opts %v: oversized segment %d (%d words) holds %d objects", iter, o, i, len(s)/8, cnt)
						}
					}
				}
			} else if len(segs) != 1 {
				t.Fatalf("SegWords 0 produced %d segments", len(segs))
			}
			// Deterministic options use the forms they promise.
			if o.Rand == nil {
				switch {
				case o.ForceDoubleFar:
					if rep.NearPtrs-rep.ZeroSizedStructs > countZeroBodyLists(v) || rep.FarPtrs != 0 {
						t.Fatalf("ForceDoubleFar: %+v", rep)
					}
				case o.SegWords == 0 && !o.ForceFar:
					if rep.FarPtrs != 0 || rep.DoubleFarPtrs != 0 {
						t.Fatalf("single segment default produced far pointers: %+v", rep)
					}
				}
			}
			tot.NearPtrs += rep.NearPtrs
			tot.FarPtrs += rep.FarPtrs
			tot.DoubleFarPtrs += rep.DoubleFarPtrs
			tot.ZeroSizedStructs += rep.ZeroSizedStructs
			tot.CompositeLists += rep.CompositeLists
			tot.Caps += rep.Caps
			n++
		}
	}
	t.Logf("%d encodings: %+v", n, tot)
	if tot.NearPtrs == 0 || tot.FarPtrs == 0 || tot.DoubleFarPtrs == 0 || tot.ZeroSizedStructs == 0 || tot.CompositeLists == 0 || tot.Caps == 0 {
		t.Errorf("some pointer form was never exercised: %+v", tot)
	}
}

// countZeroBodyLists counts lists with a zero-word body (void lists, empty
// primitive and pointer lists): they are always encoded with a near pointer.
func countZeroBodyLists(v *Value) int {
	n := 0
	switch v.Kind {
	case KStruct:
		for _, p := range v.Ptrs {
			n += countZeroBodyLists(p)
		}
	case KList:
		if v.Elem != EComposite && (v.Count == 0 || v.Elem == EVoid) {
			n++
		}
		for _, p := range v.Items {
			n += countZeroBodyLists(p)
		}
	}
	return n
}

// Non-struct roots and bit-list padding bits survive a round trip.
func TestRoundTripOddities(t *testing.T) {
	r := rand.New(rand.NewSource(7))
	vals := []*Value{
		NullValue(),
		{Kind: KCap, CapIndex: 0xffffffff},
		{Kind: KList, Elem: EBit, Count: 3, Bytes: []byte{0xfd}}, // garbage padding bits
		{Kind: KList, Elem: EVoid, Count: 1000},
		{Kind: KList, Elem: EComposite, Count: 4}, // zero-sized elements
		{Kind: KStruct},
	}
	vals[4].Items = []*Value{{Kind: KStruct}, {Kind: KStruct}, {Kind: KStruct}, {Kind: KStruct}}
	for _, v := range vals {
		for _, o := range encVariants(r) {
			segs := Encode(v, o)
			if _, err := Validate(segs); err != nil {
				t.Fatalf("%v %v: %v", v, o, err)
			}
			got := mustDecode(t, segs)
			if !DeepEqual(got, v) {
				t.Fatalf("%v %v: got %v", v, o, got)
			}
			if v.Kind == KList && v.Elem == EBit && got.Bytes[0] != 0xfd {
				t.Fatalf("padding bits not preserved verbatim: %x", got.Bytes)
			}
		}
	}
	// DeepEqual ignores bit padding, but not real bits.
	a := &Value{Kind: KList, Elem: EBit, Count: 3, Bytes: []byte{0xfd}}
	b := &Value{Kind: KList, Elem: EBit, Count: 3, Bytes: []byte{0x05}}
	c := &Value{Kind: KList, Elem: EBit, Count: 3, Bytes: []byte{0x01}}
	if !DeepEqual(a, b) || DeepEqual(a, c) || !Equal(a, b) || Equal(a, c) {
		t.Error("bit list comparison")
	}
}

func TestDeepEqualDistinguishes(t *testing.T) {
	s := func(dw, pw int) *Value {
		v := &Value{Kind: KStruct, Data: make([]byte, 8*dw), Ptrs: make([]*Value, pw)}
		for i := range v.Ptrs {
			v.Ptrs[i] = NullValue()
		}
		return v
	}
	if DeepEqual(s(1, 0), s(0, 0)) || DeepEqual(s(0, 1), s(0, 0)) || DeepEqual(s(0, 0), NullValue()) {
		t.Error("DeepEqual must see section sizes")
	}
	if !Equal(s(1, 0), s(0, 0)) || !Equal(s(0, 3), s(2, 0)) || Equal(s(0, 0), NullValue()) {
		t.Error("Equal must ignore zero padding but not confuse empty struct with null")
	}
	l1 := &Value{Kind: KList, Elem: EByte}
	l2 := &Value{Kind: KList, Elem: ETwo}
	if DeepEqual(l1, l2) {
		t.Error("DeepEqual must see element codes")
	}
	if !DeepEqual(nil, NullValue()) || !Equal(nil, NullValue()) {
		t.Error("nil is null")
	}
	c := s(1, 1).Clone()
	if !DeepEqual(c, s(1, 1)) {
		t.Error("Clone")
	}
	c.Data[0] = 1
	if DeepEqual(c, s(1, 1)) {
		t.Error("DeepEqual must see data")
	}
}

func TestCloneIsDeep(t *testing.T) {
	r := rand.New(rand.NewSource(3))
	for i := 0; i < 100; i++ {
		v := RandValue(r.Intn, 4, true)
		c := v.Clone()
		if !DeepEqual(v, c) || v.String() != c.String() {
			t.Fatal("clone differs")
		}
		// Mutating the clone must not affect the original.
		before := v.String()
		scribble(c)
		if v.String() != before {
			t.Fatal("clone shares memory with original")
		}
	}
}

func scribble(v *Value) {
	for i := range v.Data {
		v.Data[i] ^= 0xff
	}
	for i := range v.Bytes {
		v.Bytes[i] ^= 0xff
	}
	for _, p := range v.Ptrs {
		scribble(p)
	}
	for _, p := range v.Items {
		scribble(p)
	}
	v.CapIndex ^= 1
}

// ---------------------------------------------------------------------------
// Equal
// ---------------------------------------------------------------------------

func TestEqualLists(t *testing.T) {
	st := func(data []byte, ptrs ...*Value) *Value {
		if ptrs == nil {
			ptrs = []*Value{}
		}
		return &Value{Kind: KStruct, Data: data, Ptrs: ptrs}
	}
	w := func(bs ...byte) []byte { return append(bs, make([]byte, 8-len(bs)%8)...)[:(len(bs)+7)/8*8] }
	comp := func(dw, pw int, items ...*Value) *Value {
		return &Value{Kind: KList, Elem: EComposite, Count: len(items), CompData: dw, CompPtrs: pw, Items: items}
	}
	prim := func(elem, count int, bs ...byte) *Value {
		return &Value{Kind: KList, Elem: elem, Count: count, Bytes: bs}
	}
	null := NullValue()
	text := prim(EByte, 2, 'h', 'i')

	type tc struct {
		name string
		a, b *Value
		want bool
	}
	cases := []tc{
		{"byte vs byte", prim(EByte, 2, 1, 2), prim(EByte, 2, 1, 2), true},
		{"byte vs byte differ", prim(EByte, 2, 1, 2), prim(EByte, 2, 1, 3), false},
		{"length differs", prim(EByte, 2, 1, 2), prim(EByte, 3, 1, 2, 0), false},
		{"byte vs two-byte", prim(EByte, 2, 1, 2), prim(ETwo, 2, 1, 0, 2, 0), false},
		{"empty byte vs empty two-byte", prim(EByte, 0), prim(ETwo, 0), false},
		{"empty byte vs empty pointer list", prim(EByte, 0), &Value{Kind: KList, Elem: EPtr}, false},
		{"byte vs composite upgrade", prim(EByte, 2, 1, 2), comp(1, 0, st(w(1)), st(w(2))), true},
		{"byte vs composite, extra data", prim(EByte, 2, 1, 2), comp(1, 0, st(w(1)), st(w(2, 9))), false},
		{"byte vs composite, wrong value", prim(EByte, 2, 1, 2), comp(1, 0, st(w(1)), st(w(3))), false},
		{"byte vs composite, extra null ptr", prim(EByte, 2, 1, 2), comp(1, 1, st(w(1), null), st(w(2), null)), true},
		{"byte vs composite, extra non-null ptr", prim(EByte, 2, 1, 2), comp(1, 1, st(w(1), null), st(w(2), text)), false},
		{"byte zeros vs composite with no data", prim(EByte, 2, 0, 0), comp(0, 0, st(nil), st(nil)), true},
		{"byte nonzero vs composite with no data", prim(EByte, 2, 0, 1), comp(0, 0, st(nil), st(nil)), false},
		{"four-byte vs composite", prim(EFour, 1, 1, 2, 3, 4), comp(1, 0, st(w(1, 2, 3, 4))), true},
		{"four-byte vs composite, byte 4 set", prim(EFour, 1, 1, 2, 3, 4), comp(1, 0, st(w(1, 2, 3, 4, 5))), false},
		{"eight-byte vs composite 2 words", prim(EEight, 1, 1, 2, 3, 4, 5, 6, 7, 8), comp(2, 0, st(w(1, 2, 3, 4, 5, 6, 7, 8, 0))), true},
		{"void vs composite empty", prim(EVoid, 2), comp(0, 0, st(nil), st(nil)), true},
		{"void vs composite zero data", prim(EVoid, 2), comp(1, 1, st(w(0), null), st(w(0), null)), true},
		{"void vs composite nonzero", prim(EVoid, 2), comp(1, 0, st(w(0)), st(w(1))), false},
		{"void count differs", prim(EVoid, 2), prim(EVoid, 3), false},
		{"ptr list vs composite", &Value{Kind: KList, Elem: EPtr, Count: 2, Items: []*Value{text, null}},
			comp(0, 1, st(nil, text.Clone()), st(nil, null)), true},
		{"ptr list vs composite with data", &Value{Kind: KList, Elem: EPtr, Count: 1, Items: []*Value{text}},
			comp(1, 1, st(w(1), text.Clone())), false},
		{"ptr list vs composite second ptr", &Value{Kind: KList, Elem: EPtr, Count: 1, Items: []*Value{text}},
			comp(0, 2, st(nil, text.Clone(), text.Clone())), false},
		{"ptr list vs composite no ptrs, null", &Value{Kind: KList, Elem: EPtr, Count: 1, Items: []*Value{null}},
			comp(0, 0, st(nil)), true},
		{"composite vs composite different shapes", comp(1, 0, st(w(7))), comp(2, 2, st(w(7, 0, 0, 0, 0, 0, 0, 0, 0), null, null)), true},
		{"composite vs composite differ", comp(1, 0, st(w(7))), comp(1, 0, st(w(8))), false},
		{"empty composite vs empty byte", comp(3, 3), prim(EByte, 0), true},
		{"bit vs composite", prim(EBit, 2, 0b01), comp(1, 0, st(w(1)), st(w(0))), false},
		{"empty bit vs empty composite", prim(EBit, 0), comp(1, 0), true},
		{"list vs struct", prim(EVoid, 0), st(nil), false},
		{"cap vs cap", &Value{Kind: KCap, CapIndex: 1}, &Value{Kind: KCap, CapIndex: 1}, true},
		{"cap vs other cap", &Value{Kind: KCap, CapIndex: 1}, &Value{Kind: KCap, CapIndex: 2}, false},
		{"cap vs null", &Value{Kind: KCap}, null, false},
	}
	for _, c := range cases {
		if got := Equal(c.a, c.b); got != c.want {
			t.Errorf("%s: Equal = %v, want %v", c.name, got, c.want)
		}
		if got := Equal(c.b, c.a); got != c.want {
			t.Errorf("%s (swapped): Equal = %v, want %v", c.name, got, c.want)
		}
	}

	// Options.
	if !EqualOpts(prim(EByte, 0), prim(ETwo, 0), EqOpts{EmptyListsOfDifferentKindEqual: true}) {
		t.Error("EmptyListsOfDifferentKindEqual")
	}
	if EqualOpts(prim(EByte, 1, 0), prim(ETwo, 1, 0, 0), EqOpts{EmptyListsOfDifferentKindEqual: true}) {
		t.Error("EmptyListsOfDifferentKindEqual must only affect empty lists")
	}
	bo := EqOpts{BitListEqualsComposite: true}
	if !EqualOpts(prim(EBit, 2, 0b01), comp(1, 0, st(w(1)), st(w(0))), bo) ||
		EqualOpts(prim(EBit, 2, 0b01), comp(1, 0, st(w(1)), st(w(1))), bo) ||
		EqualOpts(prim(EBit, 2, 0b01), comp(1, 0, st(w(3)), st(w(0))), bo) {
		t.Error("BitListEqualsComposite")
	}
}

// padValue returns a copy of v with extra trailing zero data words and null
// pointers on structs, and grown element sections on composite lists.
func padValue(r *rand.Rand, v *Value) *Value {
	c := &Value{Kind: v.Kind, Elem: v.Elem, Count: v.Count, CapIndex: v.CapIndex}
	switch v.Kind {
	case KStruct:
		padStructInto(r, c, v, r.Intn(3), r.Intn(3))
	case KList:
		c.Bytes = append([]byte{}, v.Bytes...)
		switch v.Elem {
		case EPtr:
			for _, p := range v.Items {
				c.Items = append(c.Items, padValue(r, p))
			}
		case EComposite:
			xd, xp := r.Intn(3), r.Intn(3)
			c.CompData, c.CompPtrs = v.CompData+xd, v.CompPtrs+xp
			for _, e := range v.Items {
				pe := &Value{Kind: KStruct}
				padStructInto(r, pe, e, xd, xp)
				c.Items = append(c.Items, pe)
			}
		}
	}
	return c
}

func padStructInto(r *rand.Rand, dst, src *Value, extraData, extraPtrs int) {
	dst.Data = append(append([]byte{}, src.Data...), make([]byte, 8*extraData)...)
	dst.Ptrs = []*Value{}
	for _, p := range src.Ptrs {
		dst.Ptrs = append(dst.Ptrs, padValue(r, p))
	}
	for i := 0; i < extraPtrs; i++ {
		dst.Ptrs = append(dst.Ptrs, NullValue())
	}
}

// mutate changes one meaningful thing somewhere in v (in place) and reports
// whether it found something to change.
func mutate(r *rand.Rand, v *Value) bool {
	switch v.Kind {
	case KCap:
		v.CapIndex++
		return true
	case KNull:
		return false
	case KStruct:
		order := r.Perm(len(v.Ptrs))
		if len(v.Data) > 0 && r.Intn(2) == 0 {
			v.Data[r.Intn(len(v.Data))] ^= 1 << r.Intn(8)
			return true
		}
		for _, i := range order {
			if mutate(r, v.Ptrs[i]) {
				return true
			}
		}
		if len(v.Data) > 0 {
			v.Data[r.Intn(len(v.Data))] ^= 1 << r.Intn(8)
			return true
		}
		return false
	case KList:
		if v.Count == 0 {
			return false
		}
		switch {
		case v.Elem == EVoid:
			return false
		case v.Elem == EBit:
			i := r.Intn(v.Count)
			v.Bytes[i/8] ^= 1 << (i % 8)
			return true
		case v.Elem <= EEight:
			v.Bytes[r.Intn(len(v.Bytes))] ^= 1 << r.Intn(8)
			return true
		default:
			for _, i := range r.Perm(len(v.Items)) {
				if mutate(r, v.Items[i]) {
					return true
				}
			}
			return false
		}
	}
	return false
}

func TestEqualRandom(t *testing.T) {
	r := rand.New(rand.NewSource(2))
	mutated := 0
	for i := 0; i < 500; i++ {
		v := RandValue(r.Intn, r.Intn(5), true)
		w := RandValue(r.Intn, r.Intn(5), true)
		if !Equal(v, v) || !Equal(v, v.Clone()) {
			t.Fatalf("not reflexive: %v", v)
		}
		if Equal(v, w) != Equal(w, v) {
			t.Fatalf("not symmetric:\n%v\n%v", v, w)
		}
		p := padValue(r, v)
		if err := p.Check(); err != nil {
			t.Fatal(err)
		}
		if !Equal(v, p) || !Equal(p, v) {
			t.Fatalf("padding changed equality:\n%v\n%v", v, p)
		}
		m := p.Clone()
		if mutate(r, m) {
			mutated++
			if Equal(v, m) || Equal(m, v) || Equal(p, m) {
				t.Fatalf("mutation not detected:\n%v\n%v", v, m)
			}
			if DeepEqual(p, m) {
				t.Fatalf("DeepEqual missed mutation")
			}
		}
	}
	if mutated < 300 {
		t.Errorf("only %d mutations exercised", mutated)
	}
}

// ---------------------------------------------------------------------------
// Canonical
// ---------------------------------------------------------------------------

func TestCanonicalVectors(t *testing.T) {
	null := NullValue()
	cases := []struct {
		name string
		v    *Value
		want []byte
	}{
		{"empty struct", &Value{Kind: KStruct}, words(0x00000000fffffffc)},
		{"all-zero struct truncates to empty",
			&Value{Kind: KStruct, Data: make([]byte, 16), Ptrs: []*Value{null, null}},
			words(0x00000000fffffffc)},
		{"data truncation",
			&Value{Kind: KStruct, Data: words(5, 0, 0), Ptrs: []*Value{}},
			words(mkStructPtr(0, 1, 0), 5)},
		{"interior zero word kept",
			&Value{Kind: KStruct, Data: words(0, 5, 0), Ptrs: []*Value{}},
			words(mkStructPtr(0, 2, 0), 0, 5)},
		{"pointer truncation, text",
			&Value{Kind: KStruct, Data: words(1, 0), Ptrs: []*Value{
				{Kind: KList, Elem: EByte, Count: 2, Bytes: []byte("ab")}, null}},
			words(mkStructPtr(0, 1, 1), 1, mkListPtr(0, EByte, 2), 0x6261)},
		{"interior null pointer kept, preorder",
			&Value{Kind: KStruct, Ptrs: []*Value{
				{Kind: KStruct, Data: words(1), Ptrs: []*Value{{Kind: KStruct, Data: words(2)}}},
				null,
				{Kind: KStruct, Data: words(3)},
			}},
			words(
				mkStructPtr(0, 0, 3), // 0 root
				mkStructPtr(2, 1, 1), // 1 -> 4
				0,                    // 2
				mkStructPtr(3, 1, 0), // 3 -> 7
				1,                    // 4 child 0 data
				mkStructPtr(0, 1, 0), // 5 -> 6
				2,                    // 6 grandchild (before child 2: pre-order)
				3,                    // 7 child 2
			)},
		{"zero-sized struct child has offset -1; empty list has natural offset",
			&Value{Kind: KStruct, Ptrs: []*Value{
				{Kind: KStruct, Data: make([]byte, 8)},
				{Kind: KList, Elem: EFour, Count: 0},
				{Kind: KList, Elem: EVoid, Count: 9},
				{Kind: KStruct, Data: words(1)},
			}},
			words(
				mkStructPtr(0, 0, 4),
				mkStructPtr(-1, 0, 0),
				mkListPtr(2, EFour, 0), // points at word 5 = next allocation
				mkListPtr(1, EVoid, 9), // likewise
				mkStructPtr(0, 1, 0),
				1,
			)},
		{"bit list padding cleared",
			&Value{Kind: KStruct, Ptrs: []*Value{{Kind: KList, Elem: EBit, Count: 10, Bytes: []byte{0xff, 0xff}}}},
			words(mkStructPtr(0, 0, 1), mkListPtr(0, EBit, 10), 0x03ff)},
		{"composite: max of truncated sizes",
			&Value{Kind: KStruct, Ptrs: []*Value{{Kind: KList, Elem: EComposite, Count: 3, CompData: 2, CompPtrs: 2, Items: []*Value{
				{Kind: KStruct, Data: words(1, 0), Ptrs: []*Value{null, null}},
				{Kind: KStruct, Data: words(0, 0), Ptrs: []*Value{{Kind: KStruct}, null}},
				{Kind: KStruct, Data: words(2, 0), Ptrs: []*Value{null, null}},
			}}}},
			words(
				mkStructPtr(0, 0, 1),
				mkListPtr(0, EComposite, 6),
				mkStructPtr(3, 1, 1),
				1, 0,
				0, mkStructPtr(-1, 0, 0),
				2, 0,
			)},
		{"composite: data-only elements all zero shrink to zero size",
			&Value{Kind: KStruct, Ptrs: []*Value{{Kind: KList, Elem: EComposite, Count: 2, CompData: 1, CompPtrs: 0, Items: []*Value{
				{Kind: KStruct, Data: words(0), Ptrs: []*Value{}},
				{Kind: KStruct, Data: words(0), Ptrs: []*Value{}},
			}}}},
			words(mkStructPtr(0, 0, 1), mkListPtr(0, EComposite, 0), mkStructPtr(2, 0, 0))},
		{"composite: data-only elements keep max data size",
			&Value{Kind: KStruct, Ptrs: []*Value{{Kind: KList, Elem: EComposite, Count: 2, CompData: 3, CompPtrs: 0, Items: []*Value{
				{Kind: KStruct, Data: words(0, 0, 0), Ptrs: []*Value{}},
				{Kind: KStruct, Data: words(0, 4, 0), Ptrs: []*Value{}},
			}}}},
			words(mkStructPtr(0, 0, 1), mkListPtr(0, EComposite, 4), mkStructPtr(2, 2, 0), 0, 0, 0, 4)},
		{"empty composite",
			&Value{Kind: KStruct, Ptrs: []*Value{{Kind: KList, Elem: EComposite, Count: 0, CompData: 3, CompPtrs: 1}}},
			words(mkStructPtr(0, 0, 1), mkListPtr(0, EComposite, 0), mkStructPtr(0, 0, 0))},
		{"composite preorder: bodies, then subtrees by element",
			&Value{Kind: KStruct, Ptrs: []*Value{{Kind: KList, Elem: EComposite, Count: 2, CompData: 0, CompPtrs: 1, Items: []*Value{
				{Kind: KStruct, Data: []byte{}, Ptrs: []*Value{{Kind: KList, Elem: EByte, Count: 1, Bytes: []byte{1}}}},
				{Kind: KStruct, Data: []byte{}, Ptrs: []*Value{{Kind: KList, Elem: EByte, Count: 1, Bytes: []byte{2}}}},
			}}}},
			words(
				mkStructPtr(0, 0, 1),
				mkListPtr(0, EComposite, 2),
				mkStructPtr(2, 0, 1),
				mkListPtr(1, EByte, 1),
				mkListPtr(1, EByte, 1),
				1, 2,
			)},
		{"pointer list",
			&Value{Kind: KStruct, Ptrs: []*Value{{Kind: KList, Elem: EPtr, Count: 3, Items: []*Value{
				{Kind: KList, Elem: ETwo, Count: 1, Bytes: []byte{1, 2}}, null, {Kind: KStruct},
			}}}},
			words(
				mkStructPtr(0, 0, 1),
				mkListPtr(0, EPtr, 3),
				mkListPtr(2, ETwo, 1), 0, mkStructPtr(-1, 0, 0),
				0x0201,
			)},
	}
	for _, c := range cases {
		got := mustCanon(t, c.v)
		if !bytes.Equal(got, c.want) {
			t.Errorf("%s:\n got %s\nwant %s", c.name, hex.EncodeToString(got), hex.EncodeToString(c.want))
		}
	}

	// Errors.
	if _, err := Canonical(&Value{Kind: KStruct, Ptrs: []*Value{{Kind: KCap}}}); !errors.Is(err, ErrCanonCap) {
		t.Errorf("cap: %v", err)
	}
	if _, err := Canonical(&Value{Kind: KList}); !errors.Is(err, ErrBadValue) {
		t.Errorf("non-struct root: %v", err)
	}
	if _, err := Canonical(&Value{Kind: KStruct, Data: make([]byte, 3)}); !errors.Is(err, ErrBadValue) {
		t.Errorf("malformed: %v", err)
	}
	// A capability is non-null, so it is never truncated away.
	if _, err := Canonical(&Value{Kind: KStruct, Ptrs: []*Value{NullValue(), {Kind: KCap}}}); !errors.Is(err, ErrCanonCap) {
		t.Errorf("trailing cap: %v", err)
	}

	// Alternative zero-sized-struct form.
	v := &Value{Kind: KStruct, Ptrs: []*Value{{Kind: KStruct}, {Kind: KStruct}}}
	got, err := CanonicalOpts(v, CanonOpts{ZeroSizedStructOffsetZero: true})
	if err != nil {
		t.Fatal(err)
	}
	// Pointer 0 at word 1, next allocation at word 3: offset 1.
	// Pointer 1 at word 2, next allocation at word 3: offset 0 -> all zero!
	want := words(mkStructPtr(0, 0, 2), mkStructPtr(1, 0, 0), 0)
	if !bytes.Equal(got, want) {
		t.Errorf("alt form: got %x want %x", got, want)
	}
	got, _ = CanonicalOpts(&Value{Kind: KStruct}, CanonOpts{ZeroSizedStructOffsetZero: true})
	if !bytes.Equal(got, words(0)) {
		t.Errorf("alt form of empty root: %x", got)
	}
}

// checkMinimal verifies on a decoded canonical message that nothing more
// could have been truncated.
func checkMinimal(t *testing.T, v *Value) {
	t.Helper()
	switch v.Kind {
	case KStruct:
		dw, pw := truncatedSizes(v)
		if dw != len(v.Data)/8 || pw != len(v.Ptrs) {
			t.Fatalf("struct not truncated: %v", v)
		}
		for _, p := range v.Ptrs {
			checkMinimal(t, p)
		}
	case KList:
		if v.Elem == EComposite {
			md, mp := 0, 0
			for _, e := range v.Items {
				d, p := truncatedSizes(e)
				md, mp = max(md, d), max(mp, p)
			}
			if md != v.CompData || mp != v.CompPtrs {
				t.Fatalf("composite list not truncated: %v", v)
			}
			for _, e := range v.Items {
				for _, p := range e.Ptrs {
					checkMinimal(t, p)
				}
			}
			return
		}
		for _, p := range v.Items {
			checkMinimal(t, p)
		}
	}
}

func TestCanonicalRandom(t *testing.T) {
	r := rand.New(rand.NewSource(4))
	for i := 0; i < 500; i++ {
		v := RandValue(r.Intn, r.Intn(5), false)
		c := mustCanon(t, v)
		if len(c)%8 != 0 || len(c) < 8 {
			t.Fatalf("bad canonical length %d", len(c))
		}

		// It is a valid single-segment message using only near pointers, with
		// objects in pre-order and no gaps: each non-empty extent starts where
		// the previous one ended.
		rep, err := Validate([][]byte{c})
		if err != nil {
			t.Fatalf("canonical form invalid: %v\n%v\n%x", err, v, c)
		}
		if rep.FarPtrs+rep.DoubleFarPtrs+rep.Caps != 0 || rep.UnreachableNonZeroWords != 0 {
			t.Fatalf("report %+v", rep)
		}
		at := 0
		for _, e := range rep.Extents {
			if e.Words == 0 {
				continue
			}
			if e.Off != at {
				t.Fatalf("extent %+v not in pre-order / gap (expected offset %d)\n%v", e, at, v)
			}
			at += e.Words
		}
		if at != len(c)/8 {
			t.Fatalf("trailing words")
		}

		// Decodes to an Equal value, minimal, and is a fixed point.
		d := mustDecode(t, [][]byte{c})
		if !Equal(d, v) || !Equal(v, d) {
			t.Fatalf("Decode(Canonical(v)) != v\n%v\n%v", v, d)
		}
		checkMinimal(t, d)
		c2 := mustCanon(t, d)
		if !bytes.Equal(c, c2) {
			t.Fatalf("not idempotent:\n%x\n%x", c, c2)
		}

		// Independent of the encoding it was decoded from.
		for _, o := range []EncOpts{{}, {SegWords: 3, Rand: r.Intn}, {SegWords: 8}, {ForceDoubleFar: true}} {
			dv := mustDecode(t, Encode(v, o))
			if !bytes.Equal(mustCanon(t, dv), c) {
				t.Fatalf("canonical form depends on encoding %v", o)
			}
		}

		// Independent of zero padding.
		p := padValue(r, v)
		if !bytes.Equal(mustCanon(t, p), c) {
			t.Fatalf("padding changed canonical form:\n%v\n%v", v, p)
		}

		// Sensitive to real changes.
		m := v.Clone()
		if mutate(r, m) {
			if bytes.Equal(mustCanon(t, m), c) {
				t.Fatalf("mutation did not change canonical form:\n%v\n%v", v, m)
			}
		}
	}
}

// tinyValue draws from a deliberately small space of values so that
// independent draws are frequently Equal.
func tinyValue(r *rand.Rand, depth int) *Value {
	tinyData := func(nwords int) []byte {
		b := make([]byte, 8*nwords)
		for i := 0; i < nwords; i++ {
			b[8*i] = byte(r.Intn(2))
		}
		return b
	}
	var ptr func(depth int) *Value
	strct := func(dw, pw, depth int) *Value {
		v := &Value{Kind: KStruct, Data: tinyData(dw), Ptrs: make([]*Value, pw)}
		for i := range v.Ptrs {
			v.Ptrs[i] = ptr(depth)
		}
		return v
	}
	ptr = func(depth int) *Value {
		if depth <= 0 {
			return NullValue()
		}
		switch r.Intn(6) {
		case 0:
			return strct(r.Intn(3), r.Intn(3), depth-1)
		case 1:
			n := r.Intn(3)
			l := &Value{Kind: KList, Elem: EByte, Count: n, Bytes: make([]byte, n)}
			for i := range l.Bytes {
				l.Bytes[i] = byte(r.Intn(2))
			}
			return l
		case 2:
			l := &Value{Kind: KList, Elem: EComposite, Count: r.Intn(3), CompData: r.Intn(2), CompPtrs: r.Intn(2)}
			for i := 0; i < l.Count; i++ {
				l.Items = append(l.Items, strct(l.CompData, l.CompPtrs, depth-1))
			}
			return l
		case 3:
			l := &Value{Kind: KList, Elem: EPtr, Count: r.Intn(3)}
			for i := 0; i < l.Count; i++ {
				l.Items = append(l.Items, ptr(depth-1))
			}
			return l
		}
		return NullValue()
	}
	return strct(r.Intn(2), 1+r.Intn(2), depth)
}

// Equal values (of the same list encodings) canonicalise identically, and
// canonical equality implies Equal.
func TestCanonicalAgreesWithEqual(t *testing.T) {
	r := rand.New(rand.NewSource(5))
	equalPairs, mixed := 0, 0
	for i := 0; i < 20000; i++ {
		a, b := tinyValue(r, 2), tinyValue(r, 2)
		ca, cb := mustCanon(t, a), mustCanon(t, b)
		eq := Equal(a, b)
		if eq {
			equalPairs++
		}
		if bytes.Equal(ca, cb) != eq {
			// The only legitimate disagreement: Equal identifies a primitive
			// list with its composite upgrade, canonical bytes do not.
			if bytes.Equal(ca, cb) {
				t.Fatalf("canonically equal but not Equal:\n%v\n%v", a, b)
			}
			if !hasMixedListKinds(a, b) {
				t.Fatalf("Equal but canonical forms differ:\n%v\n%v", a, b)
			}
			mixed++
		}
	}
	t.Logf("%d Equal pairs, %d of them only via list upgrade", equalPairs, mixed)
	if equalPairs < 500 || mixed == 0 {
		t.Errorf("too few interesting pairs: %d equal, %d mixed", equalPairs, mixed)
	}
}

// hasMixedListKinds reports whether a and b contain, at corresponding
// positions, lists of different element codes.
func hasMixedListKinds(a, b *Value) bool {
	if a.Kind != b.Kind {
		return false
	}
	switch a.Kind {
	case KStruct:
		for i := 0; i < min(len(a.Ptrs), len(b.Ptrs)); i++ {
			if hasMixedListKinds(a.Ptrs[i], b.Ptrs[i]) {
				return true
			}
		}
	case KList:
		if a.Elem != b.Elem {
			return true
		}
		for i := 0; i < min(len(a.Items), len(b.Items)); i++ {
			if hasMixedListKinds(a.Items[i], b.Items[i]) {
				return true
			}
		}
	}
	return false
}

// ---------------------------------------------------------------------------
// Framing
// ---------------------------------------------------------------------------

func TestFrameVectors(t *testing.T) {
	// One segment of one word.
	f := BuildFrame([][]byte{words(0x0102030405060708)})
	want, _ := hex.DecodeString("00000000" + "01000000" + "0807060504030201")
	if !bytes.Equal(f, want) {
		t.Errorf("1 seg: %x", f)
	}
	// Two segments: header is 12 bytes + 4 padding.
	f = BuildFrame([][]byte{words(1), words(2, 3)})
	want, _ = hex.DecodeString("01000000" + "01000000" + "02000000" + "00000000" +
		"0100000000000000" + "0200000000000000" + "0300000000000000")
	if !bytes.Equal(f, want) {
		t.Errorf("2 segs: %x", f)
	}
	// Three segments: header is exactly 16 bytes, no padding.
	f = BuildFrame([][]byte{words(1), {}, words(2)})
	want, _ = hex.DecodeString("02000000" + "01000000" + "00000000" + "01000000" +
		"0100000000000000" + "0200000000000000")
	if !bytes.Equal(f, want) {
		t.Errorf("3 segs: %x", f)
	}
	segs, n, err := ParseFrame(f)
	if err != nil || n != len(f) || len(segs) != 3 || len(segs[1]) != 0 || !bytes.Equal(segs[2], words(2)) {
		t.Errorf("parse: %v %d %v", segs, n, err)
	}

	if _, _, err := ParseFrame(nil); err != ErrEmpty {
		t.Errorf("empty: %v", err)
	}
	// Absurd segment count: header cannot be present.
	if _, _, err := ParseFrame([]byte{0xff, 0xff, 0xff, 0xff, 0, 0, 0, 0}); err != ErrShort {
		t.Errorf("huge count: %v", err)
	}
	// Absurd segment size.
	if _, _, err := ParseFrame([]byte{0, 0, 0, 0, 0xff, 0xff, 0xff, 0xff}); err != ErrShort {
		t.Errorf("huge size: %v", err)
	}
	// Sizes that would overflow 64 bits if summed naively.
	big := make([]byte, 8+4*4)
	binary.LittleEndian.PutUint32(big, 4)
	for i := 0; i < 5; i++ {
		binary.LittleEndian.PutUint32(big[4+4*i:], 0xffffffff)
	}
	if _, _, err := ParseFrame(big); err != ErrShort {
		t.Errorf("overflowing sizes: %v", err)
	}
}

func TestFrameRandom(t *testing.T) {
	r := rand.New(rand.NewSource(6))
	for i := 0; i < 200; i++ {
		var stream []byte
		var wantEnds []int
		var all [][][]byte
		for f := r.Intn(4); f >= 0; f-- {
			var segs [][]byte
			for s := r.Intn(6); s >= 0; s-- {
				seg := make([]byte, 8*r.Intn(5))
				r.Read(seg)
				segs = append(segs, seg)
			}
			frame := BuildFrame(segs)
			if len(frame)%8 != 0 {
				t.Fatalf("frame length %d", len(frame))
			}
			// Every proper prefix is short (or empty).
			for cut := 0; cut < len(frame); cut++ {
				_, _, err := ParseFrame(frame[:cut])
				if cut == 0 && err != ErrEmpty || cut > 0 && err != ErrShort {
					t.Fatalf("prefix %d/%d: %v", cut, len(frame), err)
				}
			}
			stream = append(stream, frame...)
			wantEnds = append(wantEnds, len(stream))
			all = append(all, segs)
		}
		// Parse frames back one by one.
		at := 0
		for _, want := range all {
			segs, n, err := ParseFrame(stream[at:])
			if err != nil {
				t.Fatal(err)
			}
			if len(segs) != len(want) {
				t.Fatalf("segment count")
			}
			for j := range segs {
				if !bytes.Equal(segs[j], want[j]) {
					t.Fatalf("segment %d differs", j)
				}
			}
			at += n
		}
		if at != len(stream) {
			t.Fatalf("consumed %d of %d", at, len(stream))
		}
		// Boundaries, with every possible amount of trailing garbage cut from
		// a further frame.
		extra := BuildFrame([][]byte{make([]byte, 8*(1+r.Intn(3)))})
		for cut := 0; cut < len(extra); cut++ {
			ends, trailing := FrameBoundaries(append(append([]byte{}, stream...), extra[:cut]...))
			if fmt.Sprint(ends) != fmt.Sprint(wantEnds) || trailing != cut {
				t.Fatalf("boundaries: %v %d want %v %d", ends, trailing, wantEnds, cut)
			}
		}
	}
	ends, trailing := FrameBoundaries(nil)
	if len(ends) != 0 || trailing != 0 {
		t.Errorf("empty stream: %v %d", ends, trailing)
	}
}

// A framed, multi-segment message goes all the way round.
func TestFramedMessage(t *testing.T) {
	r := rand.New(rand.NewSource(8))
	for i := 0; i < 100; i++ {
		v := RandValue(r.Intn, 4, true)
		segs := Encode(v, EncOpts{SegWords: 1 + r.Intn(10), Rand: r.Intn})
		got, n, err := ParseFrame(BuildFrame(segs))
		if err != nil || n != len(BuildFrame(segs)) {
			t.Fatal(err)
		}
		d := mustDecode(t, got)
		if !DeepEqual(d, v) {
			t.Fatal("mismatch")
		}
	}
}

// ---------------------------------------------------------------------------
// Value.Check
// ---------------------------------------------------------------------------

func TestCheckRejectsMalformed(t *testing.T) {
	null := NullValue()
	st := &Value{Kind: KStruct, Data: make([]byte, 8), Ptrs: []*Value{null}}
	bad := []*Value{
		nil,
		{Kind: 9},
		{Kind: KStruct, Data: make([]byte, 5)},
		{Kind: KStruct, Data: make([]byte, 8*(maxSectionWords+1))},
		{Kind: KStruct, Ptrs: make([]*Value, 1)}, // nil entry
		{Kind: KList, Elem: 8},
		{Kind: KList, Elem: -1},
		{Kind: KList, Elem: EByte, Count: -1},
		{Kind: KList, Elem: EByte, Count: 3, Bytes: make([]byte, 8)}, // padded storage
		{Kind: KList, Elem: EBit, Count: 9, Bytes: make([]byte, 1)},
		{Kind: KList, Elem: EVoid, Count: 2, Bytes: make([]byte, 1)},
		{Kind: KList, Elem: EVoid, Count: maxListCount + 1},
		{Kind: KList, Elem: EByte, Count: 0, Items: []*Value{null}},
		{Kind: KList, Elem: EPtr, Count: 2, Items: []*Value{null}},
		{Kind: KList, Elem: EPtr, Count: 1, Items: []*Value{nil}},
		{Kind: KList, Elem: EComposite, Count: 1, CompData: 1, CompPtrs: 1, Items: []*Value{null}},
		{Kind: KList, Elem: EComposite, Count: 1, CompData: 2, CompPtrs: 1, Items: []*Value{st}},
		{Kind: KList, Elem: EComposite, Count: 1, CompData: 1, CompPtrs: 0, Items: []*Value{st}},
		{Kind: KList, Elem: EComposite, Count: 2, CompData: 1, CompPtrs: 1, Items: []*Value{st}},
		{Kind: KList, Elem: EComposite, Count: 0, CompData: maxSectionWords + 1},
		{Kind: KStruct, Ptrs: []*Value{{Kind: KList, Elem: EByte, Count: 1}}}, // nested
	}
	for i, v := range bad {
		if err := v.Check(); !errors.Is(err, ErrBadValue) {
			t.Errorf("case %d (%v): Check = %v", i, v, err)
		}
	}
	good := []*Value{
		null, st, {Kind: KCap}, {Kind: KStruct},
		{Kind: KList, Elem: EVoid, Count: maxListCount},
		{Kind: KList, Elem: EBit, Count: 9, Bytes: make([]byte, 2)},
		{Kind: KList, Elem: EComposite, Count: 1, CompData: 1, CompPtrs: 1, Items: []*Value{st}},
	}
	for i, v := range good {
		if err := v.Check(); err != nil {
			t.Errorf("good case %d: %v", i, err)
		}
	}
	// Encode panics on malformed input instead of emitting garbage.
	func() {
		defer func() {
			if recover() == nil {
				t.Error("Encode accepted a malformed value")
			}
		}()
		Encode(bad[2], EncOpts{})
	}()
}
