package packedref

import (
	"bytes"
	"encoding/hex"
	"fmt"
	"math/rand"
	"testing"
)

func unhex(t *testing.T, s string) []byte {
	t.Helper()
	b, err := hex.DecodeString(s)
	if err != nil {
		t.Fatal(err)
	}
	return b
}

func rep(s string, n int) string {
	out := ""
	for i := 0; i < n; i++ {
		out += s
	}
	return out
}

func TestVectors(t *testing.T) {
	cases := []struct{ name, raw, packed string }{
		{"empty", "", ""},
		// The example from the spec's Packing section.
		{"spec example", "0800000003000200" + "19000000aa010000", "51080302" + "3119aa01"},
		{"one zero word", "0000000000000000", "0000"},
		{"four zero words", rep("00", 32), "0003"},
		{"one full word", "8a9b9c9d9e9fa0a1", "ff8a9b9c9d9e9fa0a100"},
		{"two full words", "0102030405060708" + "1112131415161718", "ff0102030405060708" + "01" + "1112131415161718"},
		{"full word then word with one zero", "0102030405060708" + "1100131415161718", "ff0102030405060708" + "01" + "1100131415161718"},
		{"full word then word with two zeros", "0102030405060708" + "1100130015161718", "ff0102030405060708" + "00" + "f5111315161718"},
		{"zero, nonzero, zero", rep("00", 8) + "0000000000000001" + rep("00", 8), "0000" + "8001" + "0000"},
		{"first byte only", "0100000000000000", "0101"},
	}
	for _, c := range cases {
		raw, want := unhex(t, c.raw), unhex(t, c.packed)
		got := Pack(raw)
		if !bytes.Equal(got, want) {
			t.Errorf("%s: Pack = %x, want %x", c.name, got, want)
		}
		out, st := Unpack(want)
		if st != OK || !bytes.Equal(out, raw) {
			t.Errorf("%s: Unpack = %x %v, want %x", c.name, out, st, raw)
		}
		if m := MaxUnpackedLen(want); m != len(raw) {
			t.Errorf("%s: MaxUnpackedLen = %d, want %d", c.name, m, len(raw))
		}
	}
}

// Unpack accepts packings Pack would not produce.
func TestUnpackNonGreedy(t *testing.T) {
	cases := []struct{ name, packed, raw string }{
		{"zero runs split", "0000" + "0001", rep("00", 24)},
		{"tag bit set for zero byte", "0100", "0000000000000000"},
		{"ff word containing zeros", "ff" + "0000000000000000" + "00", "0000000000000000"},
		{"literal run not taken", "ff0102030405060708" + "00" + "ff1112131415161718" + "00", "0102030405060708" + "1112131415161718"},
		{"literal run of zeros", "ff0102030405060708" + "01" + rep("00", 8), "0102030405060708" + rep("00", 8)},
	}
	for _, c := range cases {
		out, st := Unpack(unhex(t, c.packed))
		if st != OK || !bytes.Equal(out, unhex(t, c.raw)) {
			t.Errorf("%s: got %x %v", c.name, out, st)
		}
	}
}

func TestTruncation(t *testing.T) {
	cases := []struct {
		name, packed, out string
		maxOut            int
		starts            []int
	}{
		{"tag without bytes", "51", "", 8, []int{0}},
		{"tag with some bytes", "510803", "", 8, []int{0}},
		{"second word's bytes missing", "51080302" + "3119", "0800000003000200", 16, []int{0, 4}},
		{"zero tag without count", "00", rep("00", 8), 8, []int{0}},
		{"ff tag, partial word", "ff01020304", "", 8, []int{0}},
		{"ff tag, full word, no count", "ff0102030405060708", "0102030405060708", 8, []int{0}},
		{"ff tag, count 2, nothing", "ff0102030405060708" + "02", "0102030405060708", 24, []int{0}},
		{"ff tag, count 2, one and a half", "ff0102030405060708" + "02" + "1112131415161718" + "21222324", "0102030405060708" + "1112131415161718", 24, []int{0}},
		{"after a complete item", "0101" + "ff0102", "0100000000000000", 16, []int{0, 2}},
	}
	for _, c := range cases {
		d := UnpackDetail(unhex(t, c.packed))
		if d.Status != Truncated {
			t.Errorf("%s: status %v", c.name, d.Status)
		}
		if !bytes.Equal(d.Out, unhex(t, c.out)) {
			t.Errorf("%s: out %x want %s", c.name, d.Out, c.out)
		}
		if d.MaxOut != c.maxOut {
			t.Errorf("%s: MaxOut %d want %d", c.name, d.MaxOut, c.maxOut)
		}
		if fmt.Sprint(d.ItemStarts) != fmt.Sprint(c.starts) {
			t.Errorf("%s: starts %v want %v", c.name, d.ItemStarts, c.starts)
		}
	}
}

// runs builds an input of alternating runs: zero words, "dense" words (no
// zero bytes) and "sparse" words (a few non-zero bytes).
func runs(r *rand.Rand, spec ...int) []byte {
	var out []byte
	for i, n := range spec {
		for j := 0; j < n; j++ {
			w := make([]byte, 8)
			switch i % 3 {
			case 0: // zero
			case 1: // dense
				for k := range w {
					w[k] = byte(1 + r.Intn(255))
				}
			case 2: // sparse
				w[r.Intn(8)] = byte(1 + r.Intn(255))
				w[r.Intn(8)] = byte(1 + r.Intn(255))
			}
			out = append(out, w...)
		}
	}
	return out
}

var edgeLens = []int{0, 1, 2, 3, 254, 255, 256, 257, 258, 509, 510, 511, 512, 513}

func checkRoundTrip(t *testing.T, raw []byte, what string) []byte {
	t.Helper()
	p := Pack(raw)
	d := UnpackDetail(p)
	if d.Status != OK || !bytes.Equal(d.Out, raw) {
		t.Fatalf("%s: round trip failed (status %v, %d -> %d -> %d bytes)", what, d.Status, len(raw), len(p), len(d.Out))
	}
	if d.MaxOut != len(raw) {
		t.Fatalf("%s: MaxOut %d, want %d", what, d.MaxOut, len(raw))
	}
	// Worst-case expansion of packing: 2 bytes per 8-byte word (tag + count)
	// can only happen for zero/full words; a crude bound is 10/8.
	if len(p) > len(raw)/8*10 {
		t.Fatalf("%s: packed %d bytes from %d", what, len(p), len(raw))
	}
	return p
}

func TestRunLengths(t *testing.T) {
	r := rand.New(rand.NewSource(1))
	for _, n := range edgeLens {
		// Zero runs: 1 tag + 1 count per 256 words.
		p := checkRoundTrip(t, make([]byte, 8*n), fmt.Sprintf("zeros %d", n))
		if want := 2 * ((n + 255) / 256); len(p) != want {
			t.Errorf("zeros %d: packed to %d bytes, want %d", n, len(p), want)
		}
		// Dense runs: 1 tag + 1 count per 256 words, plus the words.
		p = checkRoundTrip(t, runs(r, 0, n), fmt.Sprintf("dense %d", n))
		if want := 8*n + 2*((n+255)/256); len(p) != want {
			t.Errorf("dense %d: packed to %d bytes, want %d", n, len(p), want)
		}
		for _, m := range []int{0, 1, 255, 256, 257} {
			checkRoundTrip(t, runs(r, n, m, 1), fmt.Sprintf("zeros %d dense %d sparse", n, m))
			checkRoundTrip(t, runs(r, m, n, 1, 1, 1), fmt.Sprintf("zeros %d dense %d mixed", m, n))
			checkRoundTrip(t, runs(r, 0, 0, 1, n, m), fmt.Sprintf("sparse zeros %d dense %d", n, m))
		}
	}
}

func TestRandomRoundTripAndCuts(t *testing.T) {
	r := rand.New(rand.NewSource(2))
	for iter := 0; iter < 300; iter++ {
		var spec []int
		for i := r.Intn(7); i >= 0; i-- {
			if r.Intn(4) == 0 {
				spec = append(spec, edgeLens[r.Intn(len(edgeLens))]%300)
			} else {
				spec = append(spec, r.Intn(4))
			}
		}
		raw := runs(r, spec...)
		p := checkRoundTrip(t, raw, fmt.Sprint(spec))
		full := UnpackDetail(p)

		isStart := map[int]bool{len(p): true}
		for _, s := range full.ItemStarts {
			isStart[s] = true
		}
		// Every prefix: OK exactly at item boundaries; output is a prefix of
		// the full output made of whole words; MaxOut bounds.
		cuts := []int{}
		if len(p) <= 600 {
			for c := 0; c <= len(p); c++ {
				cuts = append(cuts, c)
			}
		} else {
			for i := 0; i < 600; i++ {
				cuts = append(cuts, r.Intn(len(p)+1))
			}
		}
		for _, c := range cuts {
			d := UnpackDetail(p[:c])
			if (d.Status == OK) != isStart[c] {
				t.Fatalf("%v: cut %d/%d: status %v, boundary %v", spec, c, len(p), d.Status, isStart[c])
			}
			if len(d.Out)%8 != 0 || !bytes.HasPrefix(raw, d.Out) {
				t.Fatalf("%v: cut %d: output is not a whole-word prefix", spec, c)
			}
			if d.MaxOut < len(d.Out) || d.MaxOut > len(raw) {
				t.Fatalf("%v: cut %d: MaxOut %d, out %d, raw %d", spec, c, d.MaxOut, len(d.Out), len(raw))
			}
			if d.Status == OK && d.MaxOut != len(d.Out) {
				t.Fatalf("MaxOut for complete input")
			}
			// Item starts of a prefix are a prefix of the item starts.
			for i, s := range d.ItemStarts {
				if full.ItemStarts[i] != s {
					t.Fatalf("item starts differ")
				}
			}
			// Monotonic: a longer prefix never yields less.
			if c > 0 {
				prev := UnpackDetail(p[:c-1])
				if len(prev.Out) > len(d.Out) {
					t.Fatalf("output shrank when input grew")
				}
			}
		}
	}
}

// Unpacking arbitrary bytes never panics and satisfies the basic invariants;
// re-packing the output and unpacking again is stable.
func TestUnpackArbitrary(t *testing.T) {
	r := rand.New(rand.NewSource(3))
	for iter := 0; iter < 2000; iter++ {
		in := make([]byte, r.Intn(40))
		for i := range in {
			switch r.Intn(4) {
			case 0:
				in[i] = 0
			case 1:
				in[i] = 0xff
			default:
				in[i] = byte(r.Intn(256))
			}
			if r.Intn(3) == 0 {
				in[i] &= 0x07 // small counts
			}
		}
		d := UnpackDetail(in)
		if len(d.Out)%8 != 0 || d.MaxOut < len(d.Out) {
			t.Fatalf("%x: %+v", in, d)
		}
		if len(in) > 0 && (len(d.ItemStarts) == 0 || d.ItemStarts[0] != 0) {
			t.Fatalf("%x: item starts %v", in, d.ItemStarts)
		}
		// Spec bound: one input byte yields at most 8*256 output bytes
		// (a 0x00 tag's count byte).
		if d.MaxOut > 8*256*len(in) {
			t.Fatalf("%x: MaxOut %d", in, d.MaxOut)
		}
		out2, st := Unpack(Pack(d.Out))
		if st != OK || !bytes.Equal(out2, d.Out) {
			t.Fatalf("%x: repack round trip", in)
		}
	}
}

func TestPackPanicsOnUnaligned(t *testing.T) {
	defer func() {
		if recover() == nil {
			t.Error("no panic")
		}
	}()
	Pack(make([]byte, 7))
}
