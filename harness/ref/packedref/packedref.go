// Package packedref is an independent reference model of Cap'n Proto's
// "packed" encoding, written from the "Packing" section of
// capnproto.org/encoding.html.
//
// The packed stream is a sequence of items, one per (run of) 8-byte word(s):
//
//	tag T (1 byte)       bit i of T set <=> byte i of the word is non-zero
//	popcount(T) bytes    the non-zero bytes of the word, in order
//	if T == 0x00:        1 byte N: N further all-zero words follow
//	if T == 0xff:        1 byte N, then N further words copied verbatim
//	                     (8*N bytes)
//
// "Non-zero bytes" is a requirement on the packer only: an unpacker copies
// whatever bytes follow the tag, so a tag bit may be set for a byte that is
// in fact zero.
package packedref

import "math/bits"

// Pack packs src, whose length must be a multiple of 8 (Pack panics
// otherwise).  It produces the standard greedy packing: after an all-zero
// word as many further zero words as possible (at most 255) are folded into
// the count byte; after a word with no zero bytes, as many following words as
// possible (at most 255) that contain at most one zero byte are emitted as a
// verbatim run.
func Pack(src []byte) []byte {
	if len(src)%8 != 0 {
		panic("packedref.Pack: input length is not a multiple of 8")
	}
	var out []byte
	for len(src) > 0 {
		w := src[:8]
		src = src[8:]

		var tag byte
		for i, b := range w {
			if b != 0 {
				tag |= 1 << i
			}
		}
		out = append(out, tag)
		for _, b := range w {
			if b != 0 {
				out = append(out, b)
			}
		}

		switch tag {
		case 0x00:
			n := 0
			for n < 255 && len(src) >= 8 && zeroBytes(src[:8]) == 8 {
				n++
				src = src[8:]
			}
			out = append(out, byte(n))
		case 0xff:
			n := 0
			for n < 255 && len(src) >= 8*(n+1) && zeroBytes(src[8*n:8*n+8]) <= 1 {
				n++
			}
			out = append(out, byte(n))
			out = append(out, src[:8*n]...)
			src = src[8*n:]
		}
	}
	return out
}

func zeroBytes(w []byte) int {
	n := 0
	for _, b := range w {
		if b == 0 {
			n++
		}
	}
	return n
}

// Status says whether a packed input ended on an item boundary.
type Status int

const (
	// OK: the input is a whole number of items.
	OK Status = iota
	// Truncated: the input ended in the middle of an item: after a tag but
	// before all of its popcount(tag) bytes, after a 0x00 tag or a 0xff tag
	// and its 8 bytes but before the count byte, or inside the verbatim words
	// announced by a 0xff item's count.
	Truncated
)

func (s Status) String() string {
	if s == OK {
		return "OK"
	}
	return "Truncated"
}

// Detail is the full result of unpacking.
type Detail struct {
	// Out holds every complete word that is fully determined by the input.
	// For a truncated final item that means:
	//   - tag present but some of its bytes missing: nothing from that word;
	//   - 0x00 tag, count byte missing: the one zero word;
	//   - 0xff tag with all 8 bytes, count byte missing: that word;
	//   - verbatim run cut short: the tagged word plus every complete
	//     verbatim word present (a partial trailing word is dropped).
	Out    []byte
	Status Status
	// ItemStarts are the offsets in the input at which each item's tag byte
	// sits.  Together with len(input) when Status == OK these are exactly the
	// positions at which the input can be cut without truncating an item.
	ItemStarts []int
	// MaxOut is the output length there would be if the missing bytes of a
	// truncated final item were supplied, taking a missing count byte as 0.
	// It equals len(Out) when Status == OK and is an upper bound on what any
	// correct unpacker may produce from this input.
	MaxOut int
}

// Unpack unpacks packed; see Detail.Out and Detail.Status.
func Unpack(packed []byte) (out []byte, st Status) {
	d := UnpackDetail(packed)
	return d.Out, d.Status
}

// MaxUnpackedLen returns Detail.MaxOut for packed.
func MaxUnpackedLen(packed []byte) int { return UnpackDetail(packed).MaxOut }

// UnpackDetail unpacks packed and reports item boundaries and bounds.
func UnpackDetail(packed []byte) Detail {
	d := Detail{Out: []byte{}}
	in := packed
	pos := 0 // offset of in[0] within packed
	advance := func(n int) { in = in[n:]; pos += n }

	for len(in) > 0 {
		d.ItemStarts = append(d.ItemStarts, pos)
		tag := in[0]
		need := bits.OnesCount8(tag)
		if len(in) < 1+need {
			// The word's bytes are incomplete: nothing of it is determined.
			d.Status = Truncated
			d.MaxOut = len(d.Out) + 8
			return d
		}
		var w [8]byte
		k := 1
		for i := 0; i < 8; i++ {
			if tag>>i&1 == 1 {
				w[i] = in[k]
				k++
			}
		}
		d.Out = append(d.Out, w[:]...)
		advance(1 + need)

		if tag != 0x00 && tag != 0xff {
			continue
		}
		if len(in) == 0 {
			// Count byte missing.
			d.Status = Truncated
			d.MaxOut = len(d.Out)
			return d
		}
		n := int(in[0])
		advance(1)
		if tag == 0x00 {
			d.Out = append(d.Out, make([]byte, 8*n)...)
			continue
		}
		// Verbatim run of n words.
		if len(in) < 8*n {
			whole := len(in) / 8 * 8
			d.MaxOut = len(d.Out) + 8*n
			d.Out = append(d.Out, in[:whole]...)
			d.Status = Truncated
			return d
		}
		d.Out = append(d.Out, in[:8*n]...)
		advance(8 * n)
	}
	d.MaxOut = len(d.Out)
	return d
}
