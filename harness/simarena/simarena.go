// Package simarena is a capnp.Arena whose allocation decisions (which segment,
// how much slack, grow vs new segment, dirty spare capacity, failures) come
// from the choice tape.  It obeys the documented Arena contract.
package simarena

import (
	"errors"

	capnp "capnproto.org/go/capnp/v3"
)

// ErrInjected is returned by an injected allocation failure.
var ErrInjected = errors.New("simarena: injected allocation failure")

// Chooser is the subset of the scheduler the arena needs.
type Chooser interface {
	Choice(label string, n int) int
	Chance(label string, num, den int) bool
	Fault(kind string)
	Probe(name string)
}

type Config struct {
	Slack     int  // 0 exact fit, 1 = +8 bytes, 2 = x2, 3 = +64 words
	AlwaysNew bool // every allocation that does not fit goes to a new segment; never reuse earlier segments
	Dirty     bool // spare capacity is pre-filled with 0xAA
	FailAt    int  // fail the n-th Allocate call (1-based); 0 = never
	FirstCap  int  // capacity in bytes of the first segment (0 = policy)
	OddCap    int  // 0..7 bytes added to every capacity: buffers whose capacity is not a whole number of words
}

type Arena struct {
	C       Chooser
	Cfg     Config
	segs    [][]byte
	Allocs  int
	Failed  bool
	Grown   int
	NewSegs int
}

func New(c Chooser, cfg Config) *Arena { return &Arena{C: c, Cfg: cfg} }

func (a *Arena) NumSegments() int64 { return int64(len(a.segs)) }

func (a *Arena) Data(id capnp.SegmentID) ([]byte, error) {
	if int64(id) >= int64(len(a.segs)) {
		return nil, errors.New("simarena: segment out of range")
	}
	return a.segs[id], nil
}

func (a *Arena) dirty(b []byte) {
	if !a.Cfg.Dirty {
		return
	}
	spare := b[len(b):cap(b)]
	for i := range spare {
		spare[i] = 0xAA
	}
}

func (a *Arena) capFor(minsz int) int { return a.capFor0(minsz) + a.Cfg.OddCap }

func (a *Arena) capFor0(minsz int) int {
	need := (minsz + 7) &^ 7
	switch a.Cfg.Slack {
	case 0:
		return need
	case 1:
		return need + 8
	case 2:
		return need * 2
	default:
		return need + 512
	}
}

func (a *Arena) Allocate(minsz capnp.Size, segs map[capnp.SegmentID]*capnp.Segment) (capnp.SegmentID, []byte, error) {
	a.Allocs++
	if a.Cfg.FailAt != 0 && a.Allocs >= a.Cfg.FailAt && !a.Failed {
		a.Failed = true
		a.C.Fault("alloc_fail")
		return 0, nil, ErrInjected
	}
	// refresh our view of loaded segments (their lengths change with allocations)
	for id, s := range segs {
		if int(id) < len(a.segs) && s != nil {
			a.segs[id] = s.Data()
		}
	}
	need := int(minsz)
	var cands []int
	for i, b := range a.segs {
		if cap(b)-len(b) >= need {
			cands = append(cands, i)
		}
	}
	if len(cands) > 0 && !a.Cfg.AlwaysNew {
		k := cands[a.C.Choice("arena-reuse", len(cands))]
		return capnp.SegmentID(k), a.segs[k], nil
	}
	if len(cands) > 0 && a.Cfg.AlwaysNew {
		// only the last segment may be reused (keeps allocation order, still legal)
		if last := len(a.segs) - 1; cands[len(cands)-1] == last {
			return capnp.SegmentID(last), a.segs[last], nil
		}
	}
	if len(a.segs) > 0 && !a.Cfg.AlwaysNew && a.C.Chance("arena-grow", 1, 4) {
		k := a.C.Choice("arena-grow-which", len(a.segs))
		old := a.segs[k]
		buf := make([]byte, len(old), len(old)+a.capFor(need))
		copy(buf, old)
		a.dirty(buf)
		a.segs[k] = buf
		a.Grown++
		a.C.Probe("arena_grew_segment")
		return capnp.SegmentID(k), buf, nil
	}
	c := a.capFor(need)
	if len(a.segs) == 0 && a.Cfg.FirstCap > c {
		c = a.Cfg.FirstCap + a.Cfg.OddCap
	}
	buf := make([]byte, 0, c)
	a.dirty(buf)
	a.segs = append(a.segs, buf)
	a.NewSegs++
	return capnp.SegmentID(len(a.segs) - 1), buf, nil
}
