// Package buildsim simulates 1-3 builder nodes, each with its own message on
// its own (simulated) allocator, that build, overwrite, exchange and serialise
// trees of Cap'n Proto objects (properties C04, C05, C16, C17, C18).
package buildsim

import (
	"bytes"
	"context"
	"encoding/binary"
	"errors"
	"fmt"
	"strings"
	"testing"

	capnp "capnproto.org/go/capnp/v3"
	"capnproto.org/go/capnp/v3/simrt"
	"verifh/ref/packedref"
	"verifh/ref/wire"
	"verifh/simarena"
	"verifh/simio"
	"verifh/worker"
)

type Engine struct{}

func (Engine) Name() string { return "buildsim" }

// ---- capability hooks

type capHook struct {
	r        *run
	id       int
	shutdown int
	client   *capnp.Client // the harness' own reference
}

func (h *capHook) Send(ctx context.Context, s capnp.Send) (*capnp.Answer, capnp.ReleaseFunc) {
	return capnp.ErrorAnswer(s.Method, errors.New("buildsim hook")), func() {}
}
func (h *capHook) Recv(ctx context.Context, r capnp.Recv) capnp.PipelineCaller {
	r.Reject(errors.New("buildsim hook"))
	return nil
}
func (h *capHook) Brand() capnp.Brand { return capnp.Brand{Value: h.id} }

// pendHook stands behind a capability-table entry made with NewPromisedClient: until the harness
// fulfils the promise (with the capHook of the same id, just before a copy), the entry is a pending
// promise; afterwards it is a resolved client that nothing has touched yet.
type pendHook struct {
	r        *run
	id       int
	shutdown int
}

func (h *pendHook) Send(ctx context.Context, s capnp.Send) (*capnp.Answer, capnp.ReleaseFunc) {
	return capnp.ErrorAnswer(s.Method, errors.New("buildsim pending hook")), func() {}
}
func (h *pendHook) Recv(ctx context.Context, r capnp.Recv) capnp.PipelineCaller {
	r.Reject(errors.New("buildsim pending hook"))
	return nil
}
func (h *pendHook) Brand() capnp.Brand { return capnp.Brand{Value: h.id} }
func (h *pendHook) Shutdown() {
	h.shutdown++
	if h.shutdown > 1 {
		h.r.fail("shutdown_twice", "capability.go:Shutdown", fmt.Sprintf("the hook of a promised capability (for hook %d) was shut down %d times", h.id, h.shutdown))
	}
}

type pendingCap struct {
	p    *capnp.ClientPromise
	h    *capHook
	hook *pendHook
}

// fulfilPending resolves every promised capability-table entry to its capability.  The table
// entries are left as they are: resolved, but not yet looked at by anyone.
func (r *run) fulfilPending() {
	for _, pc := range r.pending {
		pc.p.Fulfill(pc.h.client)
		if pc.hook.shutdown != 1 && !r.failed() {
			r.fail("shutdown_count", "capability.go:(*ClientPromise).Fulfill", fmt.Sprintf("the hook given to NewPromisedClient was shut down %d times when Fulfill returned (want 1)", pc.hook.shutdown))
		}
		r.s.Probe("promised_capability_fulfilled_before_copy")
	}
	r.pending = nil
}
func (h *capHook) Shutdown() {
	h.shutdown++
	r := h.r
	if h.shutdown > 1 {
		r.fail("shutdown_twice", "capability.go:Shutdown", fmt.Sprintf("capability hook %d shut down %d times: a copied capability did not hold its own reference", h.id, h.shutdown))
		return
	}
	// no live message may still reference the hook
	for _, n := range r.nodes {
		if n.reset {
			continue
		}
		for _, id := range n.capTable {
			if id == h.id {
				r.fail("shutdown_while_referenced", "segment.go:(*Segment).writePtr", fmt.Sprintf("capability hook %d was shut down while the capability table of node %d still holds it", h.id, n.id))
				return
			}
		}
	}
	if !h.r.dropping {
		r.fail("shutdown_while_referenced", "segment.go:(*Segment).writePtr", fmt.Sprintf("capability hook %d was shut down while the harness still holds its own reference", h.id))
	}
}

// ---- nodes

type node struct {
	id       int
	msg      *capnp.Message
	seg      *capnp.Segment
	arena    *simarena.Arena // nil for library arenas
	arenaStr string
	root     *wire.Value
	capTable []int // hook id per capability table index
	tainted  bool  // an injected allocation failure hit a partial copy: only structural checks continue
	reset    bool
	failArmed bool
}

type run struct {
	s        *simrt.Sched
	prop     string
	nodes    []*node
	hooks    []*capHook
	pending  []*pendingCap
	ops      int
	dropping bool
	desc     []string
	checks   int
	reads    int
	key      uint64
}

func (r *run) fail(oracle, site, detail string) { r.s.Fail(oracle, site, detail) }
func (r *run) failed() bool                     { return r.s.Failed() }

func (r *run) enabled(group string) bool {
	switch group {
	case "readback": // C04
		return r.prop == "C04"
	case "wire": // C05
		return r.prop == "C05"
	case "copy": // C16
		return r.prop == "C16"
	case "equal":
		return r.prop == "C17"
	case "canon":
		return r.prop == "C18"
	}
	return false
}

func (r *run) newNode() *node {
	s := r.s
	n := &node{id: len(r.nodes)}
	var arena capnp.Arena
	switch k := s.Choice("arena-kind", 7); k {
	case 0:
		arena = capnp.SingleSegment(nil)
		n.arenaStr = "SingleSegment(nil)"
	case 1:
		c := []int{8, 16, 64, 4096}[s.Choice("ss-cap", 4)]
		arena = capnp.SingleSegment(make([]byte, 0, c))
		n.arenaStr = fmt.Sprintf("SingleSegment(cap %d)", c)
	case 2:
		arena = capnp.MultiSegment(nil)
		n.arenaStr = "MultiSegment(nil)"
	default:
		// (the draw was widened from 4 to 8: the upper half gives every buffer a capacity that is
		// not a whole number of words, as a caller-supplied buffer may have)
		sl := s.Choice("slack", 8)
		cfg := simarena.Config{
			Slack:     sl % 4,
			OddCap:    []int{0, 0, 0, 0, 4, 1, 7, 3}[sl],
			AlwaysNew: s.Chance("always-new", 1, 3),
			Dirty:     s.Chance("dirty", 1, 2),
			FirstCap:  []int{0, 8, 16, 64}[s.Choice("firstcap", 4)],
		}
		if s.Chance("alloc-fail", 1, 6) {
			cfg.FailAt = 2 + s.Choice("fail-at", 30)
			n.failArmed = true
		}
		n.arena = simarena.New(s, cfg)
		arena = n.arena
		n.arenaStr = fmt.Sprintf("SimArena%+v", cfg)
		if cfg.Dirty {
			s.Fault("dirty_cap")
		}
		if cfg.Slack == 0 {
			s.Fault("exact_fit")
		}
		if cfg.OddCap != 0 {
			s.Fault("capacity_not_word_multiple")
		}
		if cfg.AlwaysNew {
			s.Fault("always_new_segment")
		}
	}
	msg, seg, err := capnp.NewMessage(arena)
	if err != nil {
		if n.arena != nil && n.arena.Failed {
			return nil
		}
		r.fail("builder_error", "message.go:NewMessage", fmt.Sprintf("NewMessage on %s: %v", n.arenaStr, err))
		return nil
	}
	n.msg, n.seg = msg, seg
	dw, pw := s.Choice("root-dw", 4), 1+s.Choice("root-pw", 4)
	root, err := capnp.NewRootStruct(seg, capnp.ObjectSize{DataSize: capnp.Size(8 * dw), PointerCount: uint16(pw)})
	if err != nil {
		if n.arena != nil && n.arena.Failed {
			return nil
		}
		r.fail("builder_error", "struct.go:NewRootStruct", fmt.Sprintf("NewRootStruct on %s: %v", n.arenaStr, err))
		return nil
	}
	_ = root
	n.root = newStructModel(dw, pw)
	r.nodes = append(r.nodes, n)
	return n
}

// opReopen serialises the node's message (Marshal, MarshalPacked or the stream Encoder), reads the
// bytes back and continues building on the message that was read: a decoded message is an ordinary
// message, and allocating in it must not disturb what it already holds.
func (r *run) opReopen(n *node) {
	s := r.s
	var m2 *capnp.Message
	var err error
	how := ""
	switch s.Choice("reopen-how", 4) {
	case 3:
		// the segments as they are, handed to a new message with spare capacity behind each of
		// them (a caller that keeps growing buffers it already has)
		how = "MultiSegment over the existing segments (with spare capacity)"
		var segs [][]byte
		for i := int64(0); i < n.msg.NumSegments(); i++ {
			sg, serr := n.msg.Segment(capnp.SegmentID(i))
			if serr != nil {
				err = serr
				break
			}
			b := make([]byte, len(sg.Data()), len(sg.Data())+8*s.Choice("reopen-spare-words", 9))
			copy(b, sg.Data())
			segs = append(segs, b)
		}
		if err == nil {
			m2 = &capnp.Message{Arena: capnp.MultiSegment(segs)}
		}
	case 0:
		how = "Marshal/Unmarshal"
		var data []byte
		if data, err = n.msg.Marshal(); err == nil {
			m2, err = capnp.Unmarshal(data)
		}
	case 1:
		how = "MarshalPacked/UnmarshalPacked"
		var data []byte
		if data, err = n.msg.MarshalPacked(); err == nil {
			m2, err = capnp.UnmarshalPacked(data)
		}
	default:
		how = "Encoder/Decoder"
		var buf bytes.Buffer
		if err = capnp.NewEncoder(&buf).Encode(n.msg); err == nil {
			m2, err = capnp.NewDecoder(&buf).Decode()
		}
	}
	if err != nil {
		if n.injected(err) {
			n.tainted = true
			return
		}
		r.fail("roundtrip_mismatch", "message.go:(*Message).Marshal", fmt.Sprintf("node %d (%s): %s failed: %v", n.id, n.arenaStr, how, err))
		return
	}
	seg, err := m2.Segment(0)
	if err != nil {
		r.fail("roundtrip_mismatch", "message.go:Unmarshal", fmt.Sprintf("node %d: %s: first segment of the decoded message: %v", n.id, how, err))
		return
	}
	m2.CapTable, n.msg.CapTable = n.msg.CapTable, nil // the references move with the tree
	n.msg, n.seg, n.arena = m2, seg, nil
	n.arenaStr += " -> reopened via " + how
	s.Probe("node_reopened_from_bytes")
	r.ops++
	r.checkReadback(n, "after reopening the message via "+how)
}

// injected reports whether err can be blamed on this node's injected allocation failure.
func (n *node) injected(err error) bool {
	return err != nil && n.arena != nil && n.arena.Failed && strings.Contains(err.Error(), "injected allocation failure")
}

// ---- descent: pick a reachable struct, real and model side by side

type target struct {
	n        *node
	st       capnp.Struct
	m        *wire.Value
	member   bool // element of a composite list
	depth    int
	path     string
}

func (r *run) rootStruct(n *node) (capnp.Struct, bool) {
	p, err := n.msg.Root()
	if err != nil {
		r.fail("readback_mismatch", "message.go:(*Message).Root", fmt.Sprintf("node %d: Root: %v", n.id, err))
		return capnp.Struct{}, false
	}
	st := p.Struct()
	if !st.IsValid() {
		r.fail("readback_mismatch", "message.go:(*Message).Root", fmt.Sprintf("node %d: root is not a struct", n.id))
		return capnp.Struct{}, false
	}
	return st, true
}

func (r *run) pick(n *node) (target, bool) {
	s := r.s
	st, ok := r.rootStruct(n)
	if !ok {
		return target{}, false
	}
	t := target{n: n, st: st, m: n.root, path: "root"}
	for t.depth < 5 {
		type child struct {
			ptr  int
			elem int // -1: the pointer itself is a struct
		}
		var cs []child
		for i, p := range t.m.Ptrs {
			switch {
			case p.Kind == wire.KStruct:
				cs = append(cs, child{i, -1})
			case p.Kind == wire.KList && p.Elem == wire.EComposite:
				for j := 0; j < p.Count && j < 4; j++ {
					cs = append(cs, child{i, j})
				}
			case p.Kind == wire.KList && p.Elem == wire.EPtr:
				for j := 0; j < p.Count && j < 4; j++ {
					if p.Items[j].Kind == wire.KStruct {
						cs = append(cs, child{i, j})
					}
				}
			}
		}
		if len(cs) == 0 || s.Choice("descend", 3) == 0 {
			return t, true
		}
		c := cs[s.Choice("child", len(cs))]
		p, err := t.st.Ptr(uint16(c.ptr))
		if err != nil {
			r.fail("readback_mismatch", "struct.go:(*Struct).Ptr", fmt.Sprintf("node %d %s.p%d: %v", n.id, t.path, c.ptr, err))
			return t, false
		}
		mp := t.m.Ptrs[c.ptr]
		nt := target{n: n, depth: t.depth + 1}
		switch {
		case c.elem < 0:
			nt.st, nt.m, nt.path = p.Struct(), mp, fmt.Sprintf("%s.p%d", t.path, c.ptr)
		case mp.Elem == wire.EComposite:
			l := p.List()
			if l.Len() != mp.Count {
				r.fail("readback_mismatch", "list.go:(*List).Len", fmt.Sprintf("node %d %s.p%d: list length %d, model %d", n.id, t.path, c.ptr, l.Len(), mp.Count))
				return t, false
			}
			nt.st, nt.m, nt.member, nt.path = l.Struct(c.elem), mp.Items[c.elem], true, fmt.Sprintf("%s.p%d[%d]", t.path, c.ptr, c.elem)
		default:
			l := p.List()
			if l.Len() != mp.Count {
				r.fail("readback_mismatch", "list.go:(*List).Len", fmt.Sprintf("node %d %s.p%d: list length %d, model %d", n.id, t.path, c.ptr, l.Len(), mp.Count))
				return t, false
			}
			e, err := capnp.PointerList{List: l}.At(c.elem)
			if err != nil {
				r.fail("readback_mismatch", "list.go:(*PointerList).At", fmt.Sprintf("node %d %s.p%d[%d]: %v", n.id, t.path, c.ptr, c.elem, err))
				return t, false
			}
			nt.st, nt.m, nt.path = e.Struct(), mp.Items[c.elem], fmt.Sprintf("%s.p%d[%d]", t.path, c.ptr, c.elem)
		}
		if !nt.st.IsValid() && (len(nt.m.Data) > 0 || len(nt.m.Ptrs) > 0) {
			r.fail("readback_mismatch", "struct.go:(*Struct).Ptr", fmt.Sprintf("node %d %s: model has a struct here, accessor returned none", n.id, nt.path))
			return t, false
		}
		if !nt.st.IsValid() {
			return t, true // zero-sized struct: nothing to do inside
		}
		t = nt
	}
	return t, true
}

// ---- value generation (real + model at once)

func (r *run) randBytes(n int) []byte {
	b := make([]byte, n)
	for i := range b {
		switch r.s.Choice("byte-kind", 4) {
		case 0:
			b[i] = 0
		default:
			b[i] = byte(1 + r.s.Choice("byte", 255))
		}
	}
	return b
}

func (r *run) listLen() int {
	if r.s.Chance("long-list", 1, 25) {
		return 254 + r.s.Choice("long", 4)
	}
	return r.s.Choice("listlen", 8)
}

// newValue creates a fresh object in n's message (preferring segment seg) and
// returns a pointer to it with its model.  depth bounds nesting.
func (r *run) newValue(n *node, seg *capnp.Segment, depth int, allowCap bool) (capnp.Ptr, *wire.Value, error) {
	s := r.s
	kinds := 9
	switch k := s.Choice("newkind", kinds); {
	case k == 0: // struct
		dw, pw := s.Choice("dw", 4), s.Choice("pw", 4)
		st, err := capnp.NewStruct(seg, capnp.ObjectSize{DataSize: capnp.Size(8 * dw), PointerCount: uint16(pw)})
		if err != nil {
			return capnp.Ptr{}, nil, err
		}
		m := newStructModel(dw, pw)
		if err := r.fillStruct(n, st, m, depth, allowCap); err != nil {
			return capnp.Ptr{}, nil, err
		}
		return st.ToPtr(), m, nil
	case k == 1: // text / data
		// textlen 20..23: blobs longer than the packed encoding's run limits (255 words of zeros / of
		// incompressible data), all zero or without any zero byte
		var b []byte
		if tl := s.Choice("textlen", 24); tl < 20 {
			b = r.randBytes(tl)
		} else {
			b = make([]byte, []int{2056, 2104, 4112, 2049}[tl-20])
			if tl >= 22 {
				for i := range b {
					b[i] = byte(1 + i%251)
				}
			}
			s.Probe("blob_longer_than_packed_run_limit")
		}
		if s.Choice("text-or-data", 2) == 0 {
			l, err := capnp.NewData(seg, b)
			if err != nil {
				return capnp.Ptr{}, nil, err
			}
			return l.ToPtr(), &wire.Value{Kind: wire.KList, Elem: wire.EByte, Count: len(b), Bytes: append([]byte(nil), b...)}, nil
		}
		for i := range b {
			if b[i] == 0 {
				b[i] = 'x'
			}
		}
		var l capnp.UInt8List
		var err error
		if s.Choice("text-api", 2) == 0 {
			l, err = capnp.NewText(seg, string(b))
		} else {
			l, err = capnp.NewTextFromBytes(seg, b)
		}
		if err != nil {
			return capnp.Ptr{}, nil, err
		}
		return l.ToPtr(), &wire.Value{Kind: wire.KList, Elem: wire.EByte, Count: len(b) + 1, Bytes: append(append([]byte(nil), b...), 0)}, nil
	case k == 2: // primitive list
		cnt := r.listLen()
		elem := []int{wire.EVoid, wire.EBit, wire.EByte, wire.ETwo, wire.EFour, wire.EEight}[s.Choice("prim-elem", 6)]
		m := &wire.Value{Kind: wire.KList, Elem: elem, Count: cnt}
		switch elem {
		case wire.EVoid:
			l := capnp.NewVoidList(seg, int32(cnt))
			return l.ToPtr(), m, nil
		case wire.EBit:
			l, err := capnp.NewBitList(seg, int32(cnt))
			if err != nil {
				return capnp.Ptr{}, nil, err
			}
			m.Bytes = make([]byte, (cnt+7)/8)
			for i := 0; i < cnt; i++ {
				if s.Choice("bit", 2) == 1 {
					l.Set(i, true)
					m.Bytes[i/8] |= 1 << uint(i%8)
				}
			}
			return l.ToPtr(), m, nil
		case wire.EByte:
			l, err := capnp.NewUInt8List(seg, int32(cnt))
			if err != nil {
				return capnp.Ptr{}, nil, err
			}
			m.Bytes = r.randBytes(cnt)
			for i, b := range m.Bytes {
				l.Set(i, b)
			}
			return l.ToPtr(), m, nil
		case wire.ETwo:
			l, err := capnp.NewUInt16List(seg, int32(cnt))
			if err != nil {
				return capnp.Ptr{}, nil, err
			}
			m.Bytes = r.randBytes(2 * cnt)
			for i := 0; i < cnt; i++ {
				l.Set(i, binary.LittleEndian.Uint16(m.Bytes[2*i:]))
			}
			return l.ToPtr(), m, nil
		case wire.EFour:
			l, err := capnp.NewUInt32List(seg, int32(cnt))
			if err != nil {
				return capnp.Ptr{}, nil, err
			}
			m.Bytes = r.randBytes(4 * cnt)
			for i := 0; i < cnt; i++ {
				l.Set(i, binary.LittleEndian.Uint32(m.Bytes[4*i:]))
			}
			return l.ToPtr(), m, nil
		default:
			l, err := capnp.NewUInt64List(seg, int32(cnt))
			if err != nil {
				return capnp.Ptr{}, nil, err
			}
			m.Bytes = r.randBytes(8 * cnt)
			for i := 0; i < cnt; i++ {
				l.Set(i, binary.LittleEndian.Uint64(m.Bytes[8*i:]))
			}
			return l.ToPtr(), m, nil
		}
	case k == 3 || k == 4: // composite list
		cnt := s.Choice("comp-len", 5)
		// comp-dw 3..5: the same 1..3 data words requested as a size that is not a whole number of
		// words (4, 12, 20 bytes), which the builder has to round up everywhere consistently
		dw, pw := s.Choice("comp-dw", 6), s.Choice("comp-pw", 3)
		dsz := capnp.Size(8 * dw)
		if dw >= 3 {
			dw -= 2
			dsz = capnp.Size(8*dw - 4)
			s.Probe("composite_list_with_unaligned_data_size")
		}
		l, err := capnp.NewCompositeList(seg, capnp.ObjectSize{DataSize: dsz, PointerCount: uint16(pw)}, int32(cnt))
		if err != nil {
			return capnp.Ptr{}, nil, err
		}
		m := &wire.Value{Kind: wire.KList, Elem: wire.EComposite, Count: cnt, CompData: dw, CompPtrs: pw}
		for i := 0; i < cnt; i++ {
			em := newStructModel(dw, pw)
			m.Items = append(m.Items, em)
			if err := r.fillStruct(n, l.Struct(i), em, depth, allowCap); err != nil {
				return capnp.Ptr{}, nil, err
			}
		}
		return l.ToPtr(), m, nil
	case k == 5: // pointer list
		cnt := s.Choice("plist-len", 5)
		l, err := capnp.NewPointerList(seg, int32(cnt))
		if err != nil {
			return capnp.Ptr{}, nil, err
		}
		m := &wire.Value{Kind: wire.KList, Elem: wire.EPtr, Count: cnt}
		for i := 0; i < cnt; i++ {
			m.Items = append(m.Items, wire.NullValue())
			if depth > 0 && s.Choice("plist-fill", 2) == 1 {
				p, pm, err := r.newValue(n, l.Segment(), depth-1, allowCap)
				if err != nil {
					return capnp.Ptr{}, nil, err
				}
				if err := l.Set(i, p); err != nil {
					return capnp.Ptr{}, nil, err
				}
				m.Items[i] = pm
			}
		}
		return l.ToPtr(), m, nil
	case k == 6 && allowCap: // capability
		h := r.someHook()
		var id capnp.CapabilityID
		if s.Choice("cap-promised", 3) == 0 {
			ph := &pendHook{r: r, id: h.id}
			c, p := capnp.NewPromisedClient(ph)
			id = n.msg.AddCap(c)
			r.pending = append(r.pending, &pendingCap{p: p, h: h, hook: ph})
			s.Probe("promised_capability_in_table")
		} else {
			id = n.msg.AddCap(h.client.AddRef())
		}
		n.capTable = append(n.capTable, h.id)
		return capnp.NewInterface(seg, id).ToPtr(), &wire.Value{Kind: wire.KCap, CapIndex: uint32(h.id)}, nil
	case k == 7: // text list / data list through the typed helpers
		cnt := s.Choice("tlist-len", 4)
		m := &wire.Value{Kind: wire.KList, Elem: wire.EPtr, Count: cnt}
		if s.Choice("tlist-kind", 2) == 0 {
			l, err := capnp.NewTextList(seg, int32(cnt))
			if err != nil {
				return capnp.Ptr{}, nil, err
			}
			for i := 0; i < cnt; i++ {
				b := r.randBytes(s.Choice("textlen", 9))
				for j := range b {
					if b[j] == 0 {
						b[j] = 'y'
					}
				}
				if err := l.Set(i, string(b)); err != nil {
					return capnp.Ptr{}, nil, err
				}
				if len(b) == 0 {
					m.Items = append(m.Items, wire.NullValue())
				} else {
					m.Items = append(m.Items, &wire.Value{Kind: wire.KList, Elem: wire.EByte, Count: len(b) + 1, Bytes: append(append([]byte(nil), b...), 0)})
				}
			}
			return l.ToPtr(), m, nil
		}
		l, err := capnp.NewDataList(seg, int32(cnt))
		if err != nil {
			return capnp.Ptr{}, nil, err
		}
		for i := 0; i < cnt; i++ {
			b := r.randBytes(1 + s.Choice("datalen", 9))
			if err := l.Set(i, b); err != nil {
				return capnp.Ptr{}, nil, err
			}
			m.Items = append(m.Items, &wire.Value{Kind: wire.KList, Elem: wire.EByte, Count: len(b), Bytes: append([]byte(nil), b...)})
		}
		return l.ToPtr(), m, nil
	default: // zero-sized struct
		st, err := capnp.NewStruct(seg, capnp.ObjectSize{})
		if err != nil {
			return capnp.Ptr{}, nil, err
		}
		return st.ToPtr(), newStructModel(0, 0), nil
	}
}

func (r *run) someHook() *capHook {
	if len(r.hooks) < 3 && (len(r.hooks) == 0 || r.s.Choice("new-hook", 2) == 0) {
		h := &capHook{r: r, id: len(r.hooks)}
		h.client = capnp.NewClient(h)
		r.hooks = append(r.hooks, h)
		return h
	}
	return r.hooks[r.s.Choice("hook", len(r.hooks))]
}

// fillStruct sets a few scalar fields and pointers of a fresh struct.
func (r *run) fillStruct(n *node, st capnp.Struct, m *wire.Value, depth int, allowCap bool) error {
	s := r.s
	for k := s.Choice("nscalars", 3); k > 0 && len(m.Data) > 0; k-- {
		r.setScalar(st, m)
	}
	if depth <= 0 {
		return nil
	}
	for i := range m.Ptrs {
		if s.Choice("fillptr", 3) != 0 {
			continue
		}
		p, pm, err := r.newValue(n, st.Segment(), depth-1, allowCap)
		if err != nil {
			return err
		}
		if err := st.SetPtr(uint16(i), p); err != nil {
			return err
		}
		m.Ptrs[i] = pm
	}
	return nil
}

func (r *run) setScalar(st capnp.Struct, m *wire.Value) {
	s := r.s
	nbytes := len(m.Data)
	switch s.Choice("width", 5) {
	case 0:
		bit := s.Choice("bitoff", nbytes*8)
		v := s.Choice("bitval", 2) == 1
		st.SetBit(capnp.BitOffset(bit), v)
		if v {
			m.Data[bit/8] |= 1 << uint(bit%8)
		} else {
			m.Data[bit/8] &^= 1 << uint(bit%8)
		}
	case 1:
		off := s.Choice("off8", nbytes)
		v := uint8(s.Choice("v8", 256))
		st.SetUint8(capnp.DataOffset(off), v)
		m.Data[off] = v
	case 2:
		off := 2 * s.Choice("off16", nbytes/2)
		v := uint16(s.Choice("v16", 65536))
		st.SetUint16(capnp.DataOffset(off), v)
		binary.LittleEndian.PutUint16(m.Data[off:], v)
	case 3:
		off := 4 * s.Choice("off32", nbytes/4)
		v := uint32(s.Choice("v32hi", 65536))<<16 | uint32(s.Choice("v32lo", 65536))
		st.SetUint32(capnp.DataOffset(off), v)
		binary.LittleEndian.PutUint32(m.Data[off:], v)
	case 4:
		off := 8 * s.Choice("off64", nbytes/8)
		v := uint64(s.Choice("v64a", 1<<30))<<34 | uint64(s.Choice("v64b", 1<<30))
		if s.Chance("v64zero", 1, 6) {
			v = 0
		}
		st.SetUint64(capnp.DataOffset(off), v)
		binary.LittleEndian.PutUint64(m.Data[off:], v)
	}
}

// ---- operations

func (r *run) opBuild(n *node) {
	s := r.s
	t, ok := r.pick(n)
	if !ok {
		return
	}
	r.ops++
	defer func() { s.Logf("node %d build at %s -> model %s", n.id, t.path, clip(t.m.String())) }()
	switch op := s.Choice("build-op", 6); {
	case op == 0 && len(t.m.Data) > 0:
		r.setScalar(t.st, t.m)
	case op == 1 && len(t.m.Ptrs) > 0: // set a pointer to null (orphaning whatever was there)
		i := s.Choice("ptr", len(t.m.Ptrs))
		if err := t.st.SetPtr(uint16(i), capnp.Ptr{}); err != nil {
			r.fail("builder_error", "struct.go:(*Struct).SetPtr", fmt.Sprintf("SetPtr(null): %v", err))
			return
		}
		if t.m.Ptrs[i].Kind != wire.KNull {
			s.Probe("pointer_overwritten")
		}
		t.m.Ptrs[i] = wire.NullValue()
	case op == 2 && len(t.m.Ptrs) > 0: // text / data through the struct helpers
		i := s.Choice("ptr", len(t.m.Ptrs))
		b := r.randBytes(s.Choice("textlen", 12))
		var err error
		var nm *wire.Value
		switch s.Choice("helper", 4) {
		case 0:
			for j := range b {
				if b[j] == 0 {
					b[j] = 'z'
				}
			}
			err = t.st.SetText(uint16(i), string(b))
			if len(b) == 0 {
				nm = wire.NullValue()
			} else {
				nm = &wire.Value{Kind: wire.KList, Elem: wire.EByte, Count: len(b) + 1, Bytes: append(append([]byte(nil), b...), 0)}
			}
		case 1:
			for j := range b {
				if b[j] == 0 {
					b[j] = 'z'
				}
			}
			err = t.st.SetNewText(uint16(i), string(b))
			nm = &wire.Value{Kind: wire.KList, Elem: wire.EByte, Count: len(b) + 1, Bytes: append(append([]byte(nil), b...), 0)}
		case 2:
			err = t.st.SetData(uint16(i), b)
			nm = &wire.Value{Kind: wire.KList, Elem: wire.EByte, Count: len(b), Bytes: append([]byte(nil), b...)}
		case 3:
			err = t.st.SetTextFromBytes(uint16(i), b)
			nm = &wire.Value{Kind: wire.KList, Elem: wire.EByte, Count: len(b) + 1, Bytes: append(append([]byte(nil), b...), 0)}
		}
		if err != nil {
			if n.injected(err) {
				r.afterFailedSet(t, i, nm)
				return
			}
			r.fail("builder_error", "struct.go:(*Struct).SetText", fmt.Sprintf("text/data helper: %v", err))
			return
		}
		t.m.Ptrs[i] = nm
	case len(t.m.Ptrs) > 0: // new object of any kind
		i := s.Choice("ptr", len(t.m.Ptrs))
		if t.m.Ptrs[i].Kind != wire.KNull {
			s.Probe("pointer_overwritten")
		}
		p, pm, err := r.newValue(n, t.st.Segment(), 2, true)
		if err == nil {
			err = t.st.SetPtr(uint16(i), p)
		}
		if err != nil {
			if n.injected(err) {
				r.afterFailedSet(t, i, pm)
				return
			}
			r.fail("builder_error", "struct.go:(*Struct).SetPtr", fmt.Sprintf("building a new object at %s.p%d: %v", t.path, i, err))
			return
		}
		t.m.Ptrs[i] = pm
	}
}

// afterFailedSet: an injected allocation failure interrupted the assignment of
// pointer i of t.  The field may hold the old value, null, or the new value;
// everything else must be unaffected.
func (r *run) afterFailedSet(t target, i int, newm *wire.Value) {
	r.s.Probe("alloc_fail_during_set")
	p, err := t.st.Ptr(uint16(i))
	if err != nil {
		r.fail("readback_mismatch", "struct.go:(*Struct).Ptr", fmt.Sprintf("after a failed assignment %s.p%d is unreadable: %v", t.path, i, err))
		return
	}
	cands := []*wire.Value{t.m.Ptrs[i], wire.NullValue()}
	if newm != nil {
		cands = append(cands, newm)
	}
	for _, c := range cands {
		cc := &cmpCtx{}
		if cc.cmpPtr(p, c, "x") == nil {
			t.m.Ptrs[i] = c
			return
		}
	}
	r.fail("readback_mismatch", "segment.go:(*Segment).writePtr", fmt.Sprintf("after a failed assignment %s.p%d holds neither the old value, null nor the new value", t.path, i))
}

// opCopy: C16 workload - deep copies between (and within) messages.
func (r *run) opCopy(dstN *node) {
	s := r.s
	srcN := r.nodes[s.Choice("src-node", len(r.nodes))]
	if srcN.tainted {
		return // its model is no longer exact
	}
	src, ok := r.pick(srcN)
	if !ok {
		return
	}
	dst, ok := r.pick(dstN)
	if !ok {
		return
	}
	r.ops++
	same := srcN == dstN
	if len(r.pending) > 0 && s.Choice("fulfil-before-copy", 2) == 0 {
		r.fulfilPending()
		if r.failed() {
			return
		}
	}
	op := s.Choice("copy-op", 7) // (widened from 6; 6 = member of a non-composite list viewed as a struct)
	s.Logf("copy op %d: src node %d %s %s -> dst node %d %s %s", op, srcN.id, src.path, clip(src.m.String()), dstN.id, dst.path, clip(dst.m.String()))
	switch {
	case op <= 1 && len(dst.m.Ptrs) > 0 && len(src.m.Ptrs) > 0:
		// dst.pI = src.pJ (any kind).  Within one message only list members and
		// capabilities are copied (everything else would alias), so restrict to those.
		i := s.Choice("ptr", len(dst.m.Ptrs))
		j := s.Choice("ptr", len(src.m.Ptrs))
		sm := src.m.Ptrs[j]
		if same && sm.Kind != wire.KCap && sm.Kind != wire.KNull {
			return
		}
		p, err := src.st.Ptr(uint16(j))
		if err != nil {
			r.fail("readback_mismatch", "struct.go:(*Struct).Ptr", fmt.Sprintf("%s.p%d: %v", src.path, j, err))
			return
		}
		r.doSetPtr(dst, i, p, sm, srcN, "SetPtr(pointer of another message)")
	case op == 2 && len(dst.m.Ptrs) > 0:
		// dst.pI = src struct itself: copied when src is in another message or a list member
		if same && !src.member {
			return
		}
		if same && src.m == dst.m {
			return
		}
		if same && contains(src.m, dst.m) {
			return // copying an ancestor into its own descendant
		}
		if src.member {
			s.Probe("list_member_forced_copy")
		}
		i := s.Choice("ptr", len(dst.m.Ptrs))
		r.doSetPtr(dst, i, src.st.ToPtr(), src.m, srcN, "SetPtr(struct)")
	case op == 3: // CopyFrom: truncate / zero-extend into an existing struct
		if src.m == dst.m || (same && (contains(src.m, dst.m) || contains(dst.m, src.m))) {
			return
		}
		if len(src.m.Data) != len(dst.m.Data) || len(src.m.Ptrs) != len(dst.m.Ptrs) {
			s.Probe("copy_with_version_skew")
		}
		err := dst.st.CopyFrom(src.st)
		if err != nil {
			if dstN.injected(err) {
				dstN.tainted = true
				s.Probe("alloc_fail_inside_deep_copy")
				return
			}
			r.fail("builder_error", "struct.go:(*Struct).CopyFrom", fmt.Sprintf("CopyFrom: %v", err))
			return
		}
		r.modelCopyInto(dstN, dst.m, src.m, srcN)
	case op == 4: // List.SetStruct on a composite list element
		for i, p := range dst.m.Ptrs {
			if p.Kind == wire.KList && p.Elem == wire.EComposite && p.Count > 0 {
				if same && (contains(src.m, p) || contains(p, src.m)) {
					return
				}
				lp, err := dst.st.Ptr(uint16(i))
				if err != nil {
					r.fail("readback_mismatch", "struct.go:(*Struct).Ptr", fmt.Sprintf("%s.p%d: %v", dst.path, i, err))
					return
				}
				j := s.Choice("elem", p.Count)
				if len(src.m.Data) != 8*p.CompData || len(src.m.Ptrs) != p.CompPtrs {
					s.Probe("copy_with_version_skew")
				}
				err = lp.List().SetStruct(j, src.st)
				if err != nil {
					if dstN.injected(err) {
						dstN.tainted = true
						s.Probe("alloc_fail_inside_deep_copy")
						return
					}
					r.fail("builder_error", "list.go:(*List).SetStruct", fmt.Sprintf("SetStruct: %v", err))
					return
				}
				r.modelCopyInto(dstN, p.Items[j], src.m, srcN)
				return
			}
		}
	case op == 6 && len(dst.m.Ptrs) > 0:
		// dst.pI = element j of a List(UInt64) / pointer list of src, read as a struct (what code
		// generated from a newer schema does after the element type was upgraded to a struct).
		// Such a struct is a list member: assigning it copies it, also within one message.
		for k, lp := range src.m.Ptrs {
			if lp.Kind != wire.KList || lp.Count == 0 || (lp.Elem != wire.EEight && lp.Elem != wire.EPtr) {
				continue
			}
			if same && contains(lp, dst.m) {
				return
			}
			p, err := src.st.Ptr(uint16(k))
			if err != nil {
				r.fail("readback_mismatch", "struct.go:(*Struct).Ptr", fmt.Sprintf("%s.p%d: %v", src.path, k, err))
				return
			}
			j := s.Choice("elem", lp.Count)
			es := p.List().Struct(j)
			var sm *wire.Value
			if lp.Elem == wire.EEight {
				sm = newStructModel(1, 0)
				copy(sm.Data, lp.Bytes[8*j:8*j+8])
			} else {
				sm = newStructModel(0, 1)
				sm.Ptrs[0] = lp.Items[j]
			}
			i := s.Choice("ptr", len(dst.m.Ptrs))
			s.Probe("noncomposite_list_member_copied_as_struct")
			r.doSetPtr(dst, i, es.ToPtr(), sm, srcN, "SetPtr(member of a non-composite list read as a struct)")
			return
		}
	case op == 5 && !same: // SetRoot with a struct of another message
		err := dstN.msg.SetRoot(src.st.ToPtr())
		if err != nil {
			if dstN.injected(err) {
				dstN.tainted = true
				return
			}
			r.fail("builder_error", "message.go:(*Message).SetRoot", fmt.Sprintf("SetRoot: %v", err))
			return
		}
		nm := src.m.Clone()
		r.rehome(dstN, nm, srcN)
		dstN.root = nm
		s.Probe("set_root_copy")
	}
}

func contains(a, b *wire.Value) bool {
	if a == b {
		return true
	}
	for _, p := range a.Ptrs {
		if contains(p, b) {
			return true
		}
	}
	for _, p := range a.Items {
		if contains(p, b) {
			return true
		}
	}
	return false
}

// rehome accounts for the capabilities a deep copy adds to the destination's table.
func (r *run) rehome(dstN *node, m *wire.Value, srcN *node) {
	if srcN == dstN {
		return
	}
	var walk func(v *wire.Value)
	walk = func(v *wire.Value) {
		switch v.Kind {
		case wire.KCap:
			dstN.capTable = append(dstN.capTable, int(v.CapIndex))
			r.s.Probe("capability_rehomed")
		case wire.KStruct:
			for _, p := range v.Ptrs {
				walk(p)
			}
		case wire.KList:
			for _, p := range v.Items {
				walk(p)
			}
		}
	}
	walk(m)
}

func (r *run) modelCopyInto(dstN *node, dm, sm *wire.Value, srcN *node) {
	copyStructInto(dm, sm)
	for _, p := range dm.Ptrs {
		r.rehome(dstN, p, srcN)
	}
}

func (r *run) doSetPtr(dst target, i int, p capnp.Ptr, sm *wire.Value, srcN *node, what string) {
	nm := sm.Clone()
	err := dst.st.SetPtr(uint16(i), p)
	if err != nil {
		if dst.n.injected(err) {
			r.s.Probe("alloc_fail_inside_deep_copy")
			// capabilities may or may not have been added to the table: give up exact table tracking
			dst.n.tainted = true
			return
		}
		r.fail("builder_error", "struct.go:(*Struct).SetPtr", fmt.Sprintf("%s into %s.p%d: %v", what, dst.path, i, err))
		return
	}
	r.rehome(dst.n, nm, srcN)
	dst.m.Ptrs[i] = nm
	if srcN != dst.n {
		r.s.Probe("cross_message_copy")
	}
}

// ---- checks

func (r *run) checkReadback(n *node, when string) {
	if n.tainted || n.reset {
		return
	}
	st, ok := r.rootStruct(n)
	if !ok {
		return
	}
	r.checks++
	c := &cmpCtx{}
	if err := c.cmpStruct(st, n.root, "root"); err != nil {
		oracle := "readback_mismatch"
		if r.prop == "C16" {
			oracle = "copy_mismatch"
		}
		r.fail(oracle, "struct.go:(*Struct).SetPtr", fmt.Sprintf("node %d (%s) %s: %v", n.id, n.arenaStr, when, err))
	}
	r.reads += c.reads
}

func (r *run) segments(n *node) ([][]byte, bool) {
	var segs [][]byte
	for i := int64(0); i < n.msg.NumSegments(); i++ {
		sg, err := n.msg.Segment(capnp.SegmentID(i))
		if err != nil {
			r.fail("builder_error", "message.go:(*Message).Segment", fmt.Sprintf("node %d segment %d: %v", n.id, i, err))
			return nil, false
		}
		segs = append(segs, sg.Data())
	}
	return segs, true
}

// checkWire: C05 - the bytes are valid Cap'n Proto and an independent decoder sees the model.
func (r *run) checkWire(n *node) {
	if n.reset {
		return
	}
	b, err := n.msg.Marshal()
	if err != nil {
		r.fail("wire_invalid", "message.go:(*Message).Marshal", fmt.Sprintf("node %d: Marshal: %v", n.id, err))
		return
	}
	r.checks++
	segs, used, err := wire.ParseFrame(b)
	if err != nil || used != len(b) {
		r.fail("wire_invalid", "message.go:(*Message).Marshal", fmt.Sprintf("node %d: Marshal output is not one well-formed frame: err=%v consumed %d of %d", n.id, err, used, len(b)))
		return
	}
	live, ok := r.segments(n)
	if !ok {
		return
	}
	if len(live) != len(segs) {
		r.fail("wire_invalid", "message.go:(*Message).Marshal", fmt.Sprintf("node %d: frame has %d segments, message has %d", n.id, len(segs), len(live)))
		return
	}
	for i := range segs {
		if !bytes.Equal(segs[i], live[i]) {
			r.fail("wire_invalid", "message.go:(*Message).Marshal", fmt.Sprintf("node %d: segment %d in the frame differs from the message's segment", n.id, i))
			return
		}
	}
	rep, err := wire.Validate(segs)
	if err != nil {
		r.fail("wire_invalid", "segment.go:(*Segment).writePtr", fmt.Sprintf("node %d (%s): produced message is not valid Cap'n Proto: %v", n.id, n.arenaStr, err))
		return
	}
	if rep.FarPtrs > 0 {
		r.s.Probe("far_pointer_written")
	}
	if rep.DoubleFarPtrs > 0 {
		r.s.Probe("double_far_pointer_written")
	}
	if rep.ZeroSizedStructs > 0 {
		r.s.Probe("zero_sized_struct_written")
	}
	if n.tainted {
		return
	}
	v, err := wire.Decode(segs, wire.DefaultLimits)
	if err != nil {
		r.fail("wire_invalid", "segment.go:(*Segment).writePtr", fmt.Sprintf("node %d: independent decoder rejects the message: %v", n.id, err))
		return
	}
	if err := mapCaps(v, n.capTable); err != nil {
		r.fail("refdecode_mismatch", "segment.go:(*Segment).writePtr", fmt.Sprintf("node %d: %v", n.id, err))
		return
	}
	if !wire.DeepEqual(v, n.root) {
		r.fail("refdecode_mismatch", "segment.go:(*Segment).writePtr", fmt.Sprintf("node %d (%s): independent decoder reads a different tree than was written:\n got  %s\n want %s", n.id, n.arenaStr, clip(v.String()), clip(n.root.String())))
	}
}

func clip(s string) string {
	if len(s) > 1500 {
		return s[:1500] + "..."
	}
	return s
}

// checkRoundTrips: C04 - the same tree after every serialisation path.
func (r *run) checkRoundTrips(n *node) {
	if n.tainted || n.reset {
		return
	}
	s := r.s
	cmp := func(msg *capnp.Message, what string) bool {
		p, err := msg.Root()
		if err != nil {
			r.fail("roundtrip_mismatch", "message.go:Unmarshal", fmt.Sprintf("node %d %s: Root: %v", n.id, what, err))
			return false
		}
		c := &cmpCtx{capByIndex: true, capTable: n.capTable}
		r.checks++
		if err := c.cmpStruct(p.Struct(), n.root, "root"); err != nil {
			r.fail("roundtrip_mismatch", "message.go:Unmarshal", fmt.Sprintf("node %d (%s) after %s: %v", n.id, n.arenaStr, what, err))
			return false
		}
		return true
	}
	b, err := n.msg.Marshal()
	if err != nil {
		r.fail("roundtrip_mismatch", "message.go:(*Message).Marshal", fmt.Sprintf("Marshal: %v", err))
		return
	}
	m2, err := capnp.Unmarshal(b)
	if err != nil {
		r.fail("roundtrip_mismatch", "message.go:Unmarshal", fmt.Sprintf("Unmarshal of Marshal output: %v", err))
		return
	}
	if !cmp(m2, "Marshal/Unmarshal") {
		return
	}
	pb, err := n.msg.MarshalPacked()
	if err != nil {
		r.fail("roundtrip_mismatch", "message.go:(*Message).MarshalPacked", fmt.Sprintf("MarshalPacked: %v", err))
		return
	}
	if out, st := packedref.Unpack(pb); st != packedref.OK || !bytes.Equal(out, b) {
		r.fail("roundtrip_mismatch", "message.go:(*Message).MarshalPacked", "MarshalPacked output does not unpack (independent decoder) to the Marshal output")
		return
	}
	m3, err := capnp.UnmarshalPacked(pb)
	if err != nil {
		r.fail("roundtrip_mismatch", "message.go:UnmarshalPacked", fmt.Sprintf("UnmarshalPacked: %v", err))
		return
	}
	if !cmp(m3, "MarshalPacked/UnmarshalPacked") {
		return
	}
	// Encoder -> pipe -> Decoder, with tape-chosen chunking
	for _, pk := range []bool{false, true} {
		w := &simio.Writer{}
		var enc *capnp.Encoder
		if pk {
			enc = capnp.NewPackedEncoder(w)
		} else {
			enc = capnp.NewEncoder(w)
		}
		if err := enc.Encode(n.msg); err != nil {
			r.fail("roundtrip_mismatch", "message.go:(*Encoder).Encode", fmt.Sprintf("Encode: %v", err))
			return
		}
		rd := simio.NewReader(w.Buf)
		chunk := []int{0, 1, 2, 7, 8, 9, 64}[s.Choice("chunk", 7)]
		rd.Chunk = func() int { return chunk }
		var dec *capnp.Decoder
		if pk {
			dec = capnp.NewPackedDecoder(rd)
		} else {
			dec = capnp.NewDecoder(rd)
		}
		if s.Choice("reuse", 2) == 1 {
			dec.ReuseBuffer()
		}
		m4, err := dec.Decode()
		if err != nil {
			r.fail("roundtrip_mismatch", "message.go:(*Decoder).Decode", fmt.Sprintf("Decode (packed=%v chunk=%d): %v", pk, chunk, err))
			return
		}
		if !cmp(m4, fmt.Sprintf("Encoder/Decoder packed=%v chunk=%d", pk, chunk)) {
			return
		}
	}
}

// subtrees lists (pointer, model) pairs of a node, for the pair invariants.
type sub struct {
	n *node
	p capnp.Ptr
	m *wire.Value
}

func (r *run) subtrees(n *node, out *[]sub) {
	if n.tainted || n.reset {
		return
	}
	st, ok := r.rootStruct(n)
	if !ok {
		return
	}
	var walk func(st capnp.Struct, m *wire.Value, depth int)
	walk = func(st capnp.Struct, m *wire.Value, depth int) {
		*out = append(*out, sub{n, st.ToPtr(), m})
		if depth > 3 {
			return
		}
		for i, pm := range m.Ptrs {
			p, err := st.Ptr(uint16(i))
			if err != nil || !p.IsValid() {
				continue
			}
			switch pm.Kind {
			case wire.KStruct:
				if p.Struct().IsValid() {
					walk(p.Struct(), pm, depth+1)
				}
			case wire.KList:
				*out = append(*out, sub{n, p, pm})
				if pm.Elem == wire.EComposite && p.List().Len() == pm.Count {
					for j := 0; j < pm.Count && j < 3; j++ {
						walk(p.List().Struct(j), pm.Items[j], depth+1)
					}
				}
			case wire.KCap:
				*out = append(*out, sub{n, p, pm})
			}
		}
	}
	walk(st, n.root, 0)
}

// checkEqual: C17 invariants over pairs of live subtrees.
func (r *run) checkEqual() {
	s := r.s
	// Capabilities are equal by identity, and a promise that is still pending is, as documented
	// for Client.IsSame, not yet the capability it will resolve to: the model gives both the same
	// identity, so the promises are fulfilled before anything is compared.
	if len(r.pending) > 0 {
		r.fulfilPending()
		if r.failed() {
			return
		}
	}
	var subs []sub
	for _, n := range r.nodes {
		r.subtrees(n, &subs)
	}
	if len(subs) == 0 {
		return
	}
	site := "pointer.go:Equal"
	eq := func(a, b sub) (bool, bool) {
		got, err := capnp.Equal(a.p, b.p)
		if err != nil {
			r.fail("equal_mismatch", site, fmt.Sprintf("Equal returned an error on well-formed values: %v", err))
			return false, false
		}
		return got, true
	}
	npairs := 4 + s.Choice("npairs", 6)
	for k := 0; k < npairs && !r.failed(); k++ {
		a := subs[s.Choice("a", len(subs))]
		b := subs[s.Choice("b", len(subs))]
		r.checks++
		if got, ok := eq(a, a); ok && !got {
			r.fail("equal_mismatch", site, fmt.Sprintf("Equal is not reflexive on %s", clip(a.m.String())))
			return
		}
		ab, ok1 := eq(a, b)
		ba, ok2 := eq(b, a)
		if !ok1 || !ok2 {
			return
		}
		if ab != ba {
			r.fail("equal_mismatch", site, fmt.Sprintf("Equal is not symmetric: Equal(a,b)=%v Equal(b,a)=%v\n a=%s\n b=%s", ab, ba, clip(a.m.String()), clip(b.m.String())))
			return
		}
		if ambiguousForEqual(a.m, b.m) {
			s.Probe("equal_pair_ambiguous_skipped")
			continue
		}
		want := wire.Equal(a.m, b.m)
		if want {
			s.Probe("equal_pair_equal")
		} else {
			s.Probe("equal_pair_unequal")
		}
		if ab != want {
			r.fail("equal_mismatch", site, fmt.Sprintf("Equal = %v, documented rules say %v\n a (node %d) = %s\n b (node %d) = %s", ab, want, a.n.id, clip(a.m.String()), b.n.id, clip(b.m.String())))
			return
		}
	}
	// a value equals its deep copy in another message / layout, and its re-encoding
	a := subs[s.Choice("copy-of", len(subs))]
	if a.m.Kind == wire.KStruct && !hasCap(a.m) {
		segs := wire.Encode(a.m, wire.EncOpts{SegWords: []int{0, 3, 8}[s.Choice("re-enc-seg", 3)], Rand: func(n int) int { return s.Choice("re-enc", n) }})
		m2 := &capnp.Message{Arena: capnp.MultiSegment(segs)}
		p2, err := m2.Root()
		if err != nil {
			r.fail("equal_mismatch", site, fmt.Sprintf("re-encoding unreadable: %v", err))
			return
		}
		r.checks++
		if got, err := capnp.Equal(a.p, p2); err != nil || !got {
			r.fail("equal_mismatch", site, fmt.Sprintf("a value does not equal its re-encoding in another segment layout (err=%v): %s", err, clip(a.m.String())))
			return
		}
		s.Probe("equal_reencoding_checked")
		// ... also when the other producer left garbage in the padding after its sub-word lists
		if p5, err := (&capnp.Message{Arena: capnp.MultiSegment(wire.Encode(a.m, wire.EncOpts{DirtyPadding: true}))}).Root(); err == nil {
			if got, err := capnp.Equal(a.p, p5); err != nil || !got {
				r.fail("equal_mismatch", site, fmt.Sprintf("a value does not equal its re-encoding with non-zero list padding (err=%v): %s", err, clip(a.m.String())))
				return
			}
		}
		// ... and stops being equal after one leaf changes
		mut := a.m.Clone()
		if mutateLeaf(mut, func(n int) int { return s.Choice("mut", n) }) && !ambiguousForEqual(a.m, mut) && !wire.Equal(a.m, mut) {
			segs := wire.Encode(mut, wire.EncOpts{})
			m3 := &capnp.Message{Arena: capnp.MultiSegment(segs)}
			p3, err := m3.Root()
			if err == nil {
				r.checks++
				if got, err := capnp.Equal(a.p, p3); err != nil || got {
					r.fail("equal_mismatch", site, fmt.Sprintf("Equal = %v (err=%v) for values that differ in one leaf\n a = %s\n b = %s", got, err, clip(a.m.String()), clip(mut.String())))
					return
				}
				s.Probe("equal_single_leaf_mutation_checked")
			}
		}
	}
}

// mutateLeaf changes exactly one leaf of v (a data bit, a list element, a
// trailing pointer) and reports whether it did.
func mutateLeaf(v *wire.Value, rnd func(int) int) bool {
	var leaves []func()
	var walk func(v *wire.Value)
	walk = func(v *wire.Value) {
		switch v.Kind {
		case wire.KStruct:
			if len(v.Data) > 0 {
				vv := v
				leaves = append(leaves, func() { vv.Data[rnd(len(vv.Data))] ^= 1 << uint(rnd(8)) })
			}
			for i, p := range v.Ptrs {
				if p.Kind == wire.KNull {
					vv, ii := v, i
					leaves = append(leaves, func() {
						vv.Ptrs[ii] = &wire.Value{Kind: wire.KList, Elem: wire.EByte, Count: 1, Bytes: []byte{7}}
					})
				}
				walk(p)
			}
		case wire.KList:
			switch {
			case v.Elem == wire.EBit && v.Count > 0:
				vv := v
				leaves = append(leaves, func() { i := rnd(vv.Count); vv.Bytes[i/8] ^= 1 << uint(i%8) })
			case v.Elem >= wire.EByte && v.Elem <= wire.EEight && v.Count > 0:
				vv := v
				leaves = append(leaves, func() { vv.Bytes[rnd(len(vv.Bytes))] ^= 1 << uint(rnd(8)) })
			}
			for _, p := range v.Items {
				walk(p)
			}
		}
	}
	walk(v)
	if len(leaves) == 0 {
		return false
	}
	leaves[rnd(len(leaves))]()
	return true
}

// checkCanonical: C18 invariants.
func (r *run) checkCanonical() {
	s := r.s
	var subs []sub
	for _, n := range r.nodes {
		r.subtrees(n, &subs)
	}
	var structs []sub
	for _, x := range subs {
		if x.m.Kind == wire.KStruct {
			structs = append(structs, x)
		}
	}
	if len(structs) == 0 {
		return
	}
	site := "canonical.go:Canonicalize"
	for k := 0; k < 3 && !r.failed(); k++ {
		a := structs[s.Choice("canon-of", len(structs))]
		r.checks++
		got, err := capnp.Canonicalize(a.p.Struct())
		if hasCap(a.m) {
			if err == nil {
				r.fail("canonical_mismatch", site, "Canonicalize accepted a struct that reaches a capability")
				return
			}
			s.Probe("canonicalize_rejects_capability")
			continue
		}
		if err != nil {
			r.fail("canonical_mismatch", site, fmt.Sprintf("Canonicalize failed on a capability-free struct: %v\n value %s", err, clip(a.m.String())))
			return
		}
		want, werr := wire.Canonical(a.m)
		if werr != nil {
			continue
		}
		alt, _ := wire.CanonicalOpts(a.m, wire.CanonOpts{ZeroSizedStructOffsetZero: true})
		if len(got)%8 != 0 {
			r.fail("canonical_mismatch", site, fmt.Sprintf("canonical form is %d bytes, not word aligned", len(got)))
			return
		}
		if _, err := wire.Validate([][]byte{got}); err != nil {
			r.fail("canonical_mismatch", site, fmt.Sprintf("canonical form is not a valid single-segment message: %v\n value %s\n bytes %x", err, clip(a.m.String()), got))
			return
		}
		dv, err := wire.Decode([][]byte{got}, wire.DefaultLimits)
		if err != nil || !wire.Equal(dv, a.m) {
			r.fail("canonical_mismatch", site, fmt.Sprintf("canonical form does not decode to a value equal to the input (err=%v)\n value %s\n decoded %s", err, clip(a.m.String()), clip(fmt.Sprint(dv))))
			return
		}
		if !bytes.Equal(got, want) && !bytes.Equal(got, alt) {
			r.fail("canonical_mismatch", site, fmt.Sprintf("canonical form differs from the canonicalisation spec\n value %s\n got  %x\n want %x", clip(a.m.String()), got, want))
			return
		}
		s.Probe("canonical_checked")
		// the caller owns the result: later calls must leave it alone (held is the slice as
		// returned, got a private copy that everything below is compared with)
		held := got
		got = append([]byte(nil), got...)
		stable := func(after string) bool {
			if !bytes.Equal(held, got) {
				r.fail("canonical_mismatch", site, fmt.Sprintf("the bytes returned by an earlier Canonicalize call changed during a later call (%s)\n returned %x\n now      %x", after, got, held))
				return false
			}
			return true
		}
		// idempotence: canonicalising the canonical message returns it unchanged
		m2 := &capnp.Message{Arena: capnp.SingleSegment(append([]byte(nil), got...))}
		p2, err := m2.Root()
		if err == nil {
			again, err := capnp.Canonicalize(p2.Struct())
			if err != nil || !bytes.Equal(again, got) {
				r.fail("canonical_mismatch", site, fmt.Sprintf("canonicalising a canonical message changed it (err=%v)\n first  %x\n second %x", err, got, again))
				return
			}
			if !stable("of the canonical message itself") {
				return
			}
		}
		// layout independence: another encoding of the same value, and a padded version, give the same bytes
		segs := wire.Encode(a.m, wire.EncOpts{SegWords: []int{0, 3, 8}[s.Choice("re-enc-seg", 3)], Rand: func(n int) int { return s.Choice("re-enc", n) }})
		m3 := &capnp.Message{Arena: capnp.MultiSegment(segs)}
		if p3, err := m3.Root(); err == nil {
			c3, err := capnp.Canonicalize(p3.Struct())
			if err != nil || !bytes.Equal(c3, got) {
				r.fail("replica_divergence", site, fmt.Sprintf("two encodings of the same value canonicalise differently (err=%v)\n value %s\n a %x\n b %x", err, clip(a.m.String()), got, c3))
				return
			}
			s.Probe("canonical_replica_checked")
			if !stable("of another encoding of the same value") {
				return
			}
		}
		// ... and a producer that leaves garbage in the alignment padding of its sub-word lists
		segs = wire.Encode(a.m, wire.EncOpts{DirtyPadding: true})
		m5 := &capnp.Message{Arena: capnp.MultiSegment(segs)}
		if p5, err := m5.Root(); err == nil {
			c5, err := capnp.Canonicalize(p5.Struct())
			if err != nil || !bytes.Equal(c5, got) {
				r.fail("replica_divergence", site, fmt.Sprintf("an encoding of the same value with non-zero list padding canonicalises differently (err=%v)\n value %s\n a %x\n b %x", err, clip(a.m.String()), got, c5))
				return
			}
			s.Probe("canonical_dirty_padding_replica_checked")
		}
		// ... and a reader that runs into its depth or traversal limit must get an error, never a
		// "canonical form" with the unread parts silently missing
		lim := &capnp.Message{Arena: capnp.SingleSegment(append([]byte(nil), got...))}
		if s.Choice("limit-kind", 2) == 0 {
			lim.DepthLimit = uint(1 + s.Choice("limit-depth", 4))
		} else {
			lim.TraverseLimit = uint64(8 * (1 + s.Choice("limit-words", 12)))
		}
		if p6, err := lim.Root(); err == nil {
			c6, err := capnp.Canonicalize(p6.Struct())
			if err == nil && !bytes.Equal(c6, got) {
				r.fail("canonical_mismatch", site, fmt.Sprintf("Canonicalize of a message read under DepthLimit=%d TraverseLimit=%d returned no error and a different form\n full    %x\n limited %x", lim.DepthLimit, lim.TraverseLimit, got, c6))
				return
			}
			if err != nil {
				s.Probe("canonicalize_stopped_by_read_limit")
			}
			if !stable("that ran under a read limit") {
				return
			}
		}
		padded := padValue(a.m, func(n int) int { return s.Choice("pad", n) })
		segs = wire.Encode(padded, wire.EncOpts{})
		m4 := &capnp.Message{Arena: capnp.MultiSegment(segs)}
		if p4, err := m4.Root(); err == nil {
			c4, err := capnp.Canonicalize(p4.Struct())
			if err != nil || !bytes.Equal(c4, got) {
				r.fail("replica_divergence", site, fmt.Sprintf("a version-padded copy of the value canonicalises differently (err=%v)\n value  %s\n padded %s\n a %x\n b %x", err, clip(a.m.String()), clip(padded.String()), got, c4))
				return
			}
			s.Probe("canonical_padded_replica_checked")
		}
	}
}

// padValue returns an Equal value whose structs have extra trailing zero words / null pointers.
func padValue(v *wire.Value, rnd func(int) int) *wire.Value {
	c := v.Clone()
	var walk func(v *wire.Value)
	walk = func(v *wire.Value) {
		switch v.Kind {
		case wire.KStruct:
			if rnd(2) == 1 {
				v.Data = append(v.Data, make([]byte, 8*(1+rnd(2)))...)
			}
			if rnd(2) == 1 {
				v.Ptrs = append(v.Ptrs, wire.NullValue())
			}
			for _, p := range v.Ptrs {
				walk(p)
			}
		case wire.KList:
			if v.Elem == wire.EComposite {
				ed, ep := rnd(2), rnd(2)
				v.CompData += ed
				v.CompPtrs += ep
				for _, it := range v.Items {
					it.Data = append(it.Data, make([]byte, 8*ed)...)
					for k := 0; k < ep; k++ {
						it.Ptrs = append(it.Ptrs, wire.NullValue())
					}
					for _, p := range it.Ptrs {
						walk(p)
					}
				}
				return
			}
			for _, p := range v.Items {
				walk(p)
			}
		}
	}
	walk(c)
	return c
}

func (r *run) periodic(when string) {
	for _, n := range r.nodes {
		if r.failed() {
			return
		}
		if r.enabled("readback") || r.enabled("copy") {
			r.checkReadback(n, when)
		}
		if r.enabled("wire") {
			r.checkWire(n)
		}
	}
	if r.failed() {
		return
	}
	if r.enabled("equal") {
		r.checkEqual()
	}
	if r.enabled("canon") {
		r.checkCanonical()
	}
}

func (Engine) Run(t *testing.T, tape *simrt.Tape, opt worker.Options) *worker.Outcome {
	r := &run{prop: opt.Property}
	body := func(s *simrt.Sched) {
		r.s = s
		nn := 1 + s.Choice("nnodes", 3)
		for i := 0; i < nn; i++ {
			r.newNode()
			if r.failed() {
				return
			}
		}
		if len(r.nodes) == 0 {
			return
		}
		nops := 4 + s.Choice("nops", 24)
		copyShare := 1
		if r.prop == "C16" || r.prop == "C17" || r.prop == "C18" {
			copyShare = 3
		}
		for i := 0; i < nops && !r.failed(); i++ {
			n := r.nodes[s.Choice("node", len(r.nodes))]
			if n.tainted {
				continue
			}
			// (op-class 6: the node's message is serialised, read back and built upon further)
			if oc := s.Choice("op-class", 7); oc == 6 {
				r.opReopen(n)
			} else if oc < copyShare {
				r.opCopy(n)
			} else {
				r.opBuild(n)
			}
			if r.failed() {
				return
			}
			if s.Choice("check-now", 4) == 0 {
				r.periodic(fmt.Sprintf("after op %d", i))
			}
		}
		if r.failed() {
			return
		}
		r.periodic("at end")
		if r.failed() {
			return
		}
		if r.enabled("readback") {
			for _, n := range r.nodes {
				r.checkRoundTrips(n)
				if r.failed() {
					return
				}
			}
		}
		for _, n := range r.nodes {
			r.desc = append(r.desc, fmt.Sprintf("node %d %s: %d segments, %d caps", n.id, n.arenaStr, n.msg.NumSegments(), len(n.capTable)))
			if sg, ok := r.segments(n); ok {
				for _, b := range sg {
					r.key = r.key*1099511628211 ^ simrt.Hash64(string(b))
				}
			}
		}
		// C16: capabilities re-homed by copies hold their own references - drop everything and count shutdowns
		if r.enabled("copy") {
			order := s.Choice("reset-order", 2)
			for k := range r.nodes {
				n := r.nodes[k]
				if order == 1 {
					n = r.nodes[len(r.nodes)-1-k]
				}
				if n.tainted {
					// table tracking was given up: treat the node as gone before resetting it
					n.reset = true
					n.msg.Reset(nil)
					continue
				}
				if len(n.msg.CapTable) != len(n.capTable) {
					r.fail("copy_mismatch", "segment.go:(*Segment).writePtr", fmt.Sprintf("node %d: capability table has %d entries, model %d", n.id, len(n.msg.CapTable), len(n.capTable)))
					return
				}
				n.reset = true
				n.msg.Reset(nil)
				if r.failed() {
					return
				}
				// the other nodes must be unaffected by this reset
				for _, o := range r.nodes {
					r.checkReadback(o, fmt.Sprintf("after node %d was reset", n.id))
				}
			}
			r.dropping = true
			for _, h := range r.hooks {
				h.client.Release()
			}
			for _, h := range r.hooks {
				if h.shutdown != 1 && !r.failed() {
					tainted := false
					for _, n := range r.nodes {
						tainted = tainted || n.tainted
					}
					if !tainted || h.shutdown > 1 {
						r.fail("shutdown_count", "segment.go:(*Segment).writePtr", fmt.Sprintf("capability hook %d was shut down %d times after every message was reset and the harness dropped its reference (want 1)", h.id, h.shutdown))
					}
				}
			}
			for _, pc := range r.pending {
				// never fulfilled: the promised client in the table was the only reference
				tainted := false
				for _, n := range r.nodes {
					tainted = tainted || n.tainted
				}
				if pc.hook.shutdown != 1 && !tainted && !r.failed() {
					r.fail("shutdown_count", "capability.go:(*Client).Release", fmt.Sprintf("the hook of a never-fulfilled promised capability (for hook %d) was shut down %d times after every message was reset (want 1)", pc.h.id, pc.hook.shutdown))
				}
			}
		}
	}
	res := simrt.RunInline(simrt.Config{Tape: tape, Trace: opt.Trace}, body)
	oc := &worker.Outcome{Res: res, Verdict: res.Verdict, Ops: r.ops, Probes: res.Probes, Faults: res.Faults}
	oc.NonTrivial = r.ops > 0 && r.checks > 0
	oc.Key = r.key
	oc.Sample = map[string]interface{}{"nodes": r.desc, "ops": r.ops, "checks": r.checks, "accessor_reads": r.reads}
	if oc.Probes == nil {
		oc.Probes = map[string]int{}
	}
	oc.Probes["oracle_checks"] += r.checks
	if oc.Verdict != nil {
		oc.Pattern = oc.Verdict.Oracle
	}
	return oc
}
