package buildsim

import (
	"encoding/binary"
	"fmt"

	capnp "capnproto.org/go/capnp/v3"
	"verifh/ref/wire"
)

// The model of a message is a wire.Value tree.  Capabilities carry the
// identity of the instrumented hook (hook id) in CapIndex, not a table index.

func newStructModel(dataWords, ptrs int) *wire.Value {
	v := &wire.Value{Kind: wire.KStruct, Data: make([]byte, 8*dataWords), Ptrs: make([]*wire.Value, ptrs)}
	for i := range v.Ptrs {
		v.Ptrs[i] = wire.NullValue()
	}
	return v
}

// copyStructInto models copyStruct: dst keeps its section sizes; data is
// copied up to the shorter section and zero-extended; pointers are deep-copied
// up to the shorter count, the rest become null.
func copyStructInto(dst, src *wire.Value) {
	for i := range dst.Data {
		dst.Data[i] = 0
	}
	copy(dst.Data, src.Data)
	for i := range dst.Ptrs {
		if i < len(src.Ptrs) {
			dst.Ptrs[i] = src.Ptrs[i].Clone()
		} else {
			dst.Ptrs[i] = wire.NullValue()
		}
	}
}

type cmpCtx struct {
	capByIndex bool // message without capability table: compare capabilities by table index
	capTable   []int
	reads      int
}

func (c *cmpCtx) errf(path, format string, args ...interface{}) error {
	return fmt.Errorf("%s: %s", path, fmt.Sprintf(format, args...))
}

// cmpPtr compares what the accessors return for p with the model.
func (c *cmpCtx) cmpPtr(p capnp.Ptr, m *wire.Value, path string) error {
	c.reads++
	switch m.Kind {
	case wire.KNull:
		if p.IsValid() {
			return c.errf(path, "model has null, accessor returned a valid pointer")
		}
		return nil
	case wire.KStruct:
		s := p.Struct()
		if !s.IsValid() {
			if len(m.Data) == 0 && len(m.Ptrs) == 0 && p.IsValid() {
				return c.errf(path, "model has a zero-sized struct, accessor returned a non-struct pointer")
			}
			return c.errf(path, "model has a struct (%d data bytes, %d pointers), accessor returned no struct (valid=%v)", len(m.Data), len(m.Ptrs), p.IsValid())
		}
		return c.cmpStruct(s, m, path)
	case wire.KList:
		l := p.List()
		if !l.IsValid() {
			return c.errf(path, "model has a list (elem %d, count %d), accessor returned no list", m.Elem, m.Count)
		}
		return c.cmpList(p, l, m, path)
	case wire.KCap:
		i := p.Interface()
		if !i.IsValid() {
			return c.errf(path, "model has a capability, accessor returned no interface")
		}
		if c.capByIndex {
			idx := int(i.Capability())
			if idx >= len(c.capTable) || c.capTable[idx] != int(m.CapIndex) {
				return c.errf(path, "capability index %d does not designate hook %d (table %v)", idx, m.CapIndex, c.capTable)
			}
			return nil
		}
		cl := i.Client()
		if cl == nil {
			return c.errf(path, "capability pointer has no client in the capability table")
		}
		id, ok := cl.State().Brand.Value.(int)
		if !ok || id != int(m.CapIndex) {
			return c.errf(path, "capability refers to hook %v, model says hook %d", cl.State().Brand.Value, m.CapIndex)
		}
		return nil
	}
	return c.errf(path, "bad model kind")
}

func (c *cmpCtx) cmpStruct(s capnp.Struct, m *wire.Value, path string) error {
	sz := s.Size()
	if int(sz.DataSize) != len(m.Data) || int(sz.PointerCount) != len(m.Ptrs) {
		return c.errf(path, "struct size (%d data bytes, %d pointers), model (%d, %d)", sz.DataSize, sz.PointerCount, len(m.Data), len(m.Ptrs))
	}
	for off := 0; off < len(m.Data); off++ {
		if got := s.Uint8(capnp.DataOffset(off)); got != m.Data[off] {
			return c.errf(path, "data byte %d = %#x, model %#x", off, got, m.Data[off])
		}
	}
	for off := 0; off+8 <= len(m.Data); off += 8 {
		want := binary.LittleEndian.Uint64(m.Data[off:])
		if got := s.Uint64(capnp.DataOffset(off)); got != want {
			return c.errf(path, "Uint64(%d) = %#x, model %#x", off, got, want)
		}
		if got := s.Uint32(capnp.DataOffset(off + 4)); got != uint32(want>>32) {
			return c.errf(path, "Uint32(%d) = %#x, model %#x", off+4, got, uint32(want>>32))
		}
		if got := s.Uint16(capnp.DataOffset(off + 2)); got != uint16(want>>16) {
			return c.errf(path, "Uint16(%d) = %#x, model %#x", off+2, got, uint16(want>>16))
		}
		b := off*8 + 13
		if got := s.Bit(capnp.BitOffset(b)); got != (m.Data[b/8]&(1<<uint(b%8)) != 0) {
			return c.errf(path, "Bit(%d) = %v, model differs", b, got)
		}
	}
	// reads beyond the data section yield zero
	if s.Uint64(capnp.DataOffset(len(m.Data))) != 0 || s.Uint8(capnp.DataOffset(len(m.Data)+3)) != 0 {
		return c.errf(path, "read past the data section is not zero")
	}
	for i := range m.Ptrs {
		p, err := s.Ptr(uint16(i))
		if err != nil {
			return c.errf(path, "Ptr(%d): %v", i, err)
		}
		if has := s.HasPtr(uint16(i)); has != (m.Ptrs[i].Kind != wire.KNull) {
			return c.errf(path, "HasPtr(%d) = %v, model kind %v", i, has, m.Ptrs[i].Kind)
		}
		if err := c.cmpPtr(p, m.Ptrs[i], fmt.Sprintf("%s.p%d", path, i)); err != nil {
			return err
		}
	}
	if p, err := s.Ptr(uint16(len(m.Ptrs))); err != nil || p.IsValid() {
		return c.errf(path, "pointer past the pointer section is not null (err=%v)", err)
	}
	return nil
}

func (c *cmpCtx) cmpList(p capnp.Ptr, l capnp.List, m *wire.Value, path string) error {
	if l.Len() != m.Count {
		return c.errf(path, "list length %d, model %d (elem %d)", l.Len(), m.Count, m.Elem)
	}
	n := m.Count
	switch m.Elem {
	case wire.EVoid:
		return nil
	case wire.EBit:
		bl := capnp.BitList{List: l}
		for i := 0; i < n; i++ {
			want := m.Bytes[i/8]&(1<<uint(i%8)) != 0
			if bl.At(i) != want {
				return c.errf(path, "bit %d = %v, model %v", i, bl.At(i), want)
			}
		}
	case wire.EByte:
		ul := capnp.UInt8List{List: l}
		for i := 0; i < n; i++ {
			if ul.At(i) != m.Bytes[i] {
				return c.errf(path, "byte element %d = %#x, model %#x", i, ul.At(i), m.Bytes[i])
			}
		}
		d := p.Data()
		if string(d) != string(m.Bytes) {
			return c.errf(path, "Data() = %x, model %x", d, m.Bytes)
		}
		if n > 0 && m.Bytes[n-1] == 0 {
			if t := p.TextBytes(); string(t) != string(m.Bytes[:n-1]) {
				return c.errf(path, "TextBytes() = %x, model %x", t, m.Bytes[:n-1])
			}
		}
	case wire.ETwo:
		ul := capnp.UInt16List{List: l}
		for i := 0; i < n; i++ {
			if want := binary.LittleEndian.Uint16(m.Bytes[2*i:]); ul.At(i) != want {
				return c.errf(path, "u16 element %d = %#x, model %#x", i, ul.At(i), want)
			}
		}
	case wire.EFour:
		ul := capnp.UInt32List{List: l}
		for i := 0; i < n; i++ {
			if want := binary.LittleEndian.Uint32(m.Bytes[4*i:]); ul.At(i) != want {
				return c.errf(path, "u32 element %d = %#x, model %#x", i, ul.At(i), want)
			}
		}
	case wire.EEight:
		ul := capnp.UInt64List{List: l}
		for i := 0; i < n; i++ {
			if want := binary.LittleEndian.Uint64(m.Bytes[8*i:]); ul.At(i) != want {
				return c.errf(path, "u64 element %d = %#x, model %#x", i, ul.At(i), want)
			}
		}
	case wire.EPtr:
		pl := capnp.PointerList{List: l}
		for i := 0; i < n; i++ {
			e, err := pl.At(i)
			if err != nil {
				return c.errf(path, "pointer element %d: %v", i, err)
			}
			if err := c.cmpPtr(e, m.Items[i], fmt.Sprintf("%s[%d]", path, i)); err != nil {
				return err
			}
		}
	case wire.EComposite:
		for i := 0; i < n; i++ {
			if err := c.cmpStruct(l.Struct(i), m.Items[i], fmt.Sprintf("%s[%d]", path, i)); err != nil {
				return err
			}
		}
	}
	return nil
}

// mapCaps rewrites capability indices of a decoded tree (table indices) into
// hook identities, so that it can be compared with a model tree.
func mapCaps(v *wire.Value, table []int) error {
	switch v.Kind {
	case wire.KCap:
		if int(v.CapIndex) >= len(table) {
			return fmt.Errorf("capability index %d outside the capability table (%d entries)", v.CapIndex, len(table))
		}
		v.CapIndex = uint32(table[v.CapIndex])
	case wire.KStruct:
		for _, p := range v.Ptrs {
			if err := mapCaps(p, table); err != nil {
				return err
			}
		}
	case wire.KList:
		for _, p := range v.Items {
			if err := mapCaps(p, table); err != nil {
				return err
			}
		}
	}
	return nil
}

func hasCap(v *wire.Value) bool {
	switch v.Kind {
	case wire.KCap:
		return true
	case wire.KStruct:
		for _, p := range v.Ptrs {
			if hasCap(p) {
				return true
			}
		}
	case wire.KList:
		for _, p := range v.Items {
			if hasCap(p) {
				return true
			}
		}
	}
	return false
}

// ambiguousForEqual reports whether the pair touches a case where the
// documented equality rules are silent (so no verdict may be based on it):
// empty lists of different element kinds, and bit lists against struct lists.
func ambiguousForEqual(a, b *wire.Value) bool {
	if a.Kind != b.Kind {
		return false
	}
	switch a.Kind {
	case wire.KStruct:
		n := len(a.Ptrs)
		if len(b.Ptrs) < n {
			n = len(b.Ptrs)
		}
		for i := 0; i < n; i++ {
			if ambiguousForEqual(a.Ptrs[i], b.Ptrs[i]) {
				return true
			}
		}
	case wire.KList:
		if a.Count != b.Count {
			return false
		}
		if a.Elem != b.Elem {
			if a.Count == 0 {
				return true
			}
			if (a.Elem == wire.EBit && b.Elem == wire.EComposite) || (b.Elem == wire.EBit && a.Elem == wire.EComposite) {
				return true
			}
		}
		if len(a.Items) == len(b.Items) {
			for i := range a.Items {
				x, y := a.Items[i], b.Items[i]
				// a pointer list against a struct list: the pointer is compared with the
				// element's first pointer field
				if x.Kind == wire.KStruct && y.Kind != wire.KStruct && len(x.Ptrs) > 0 {
					x = x.Ptrs[0]
				} else if y.Kind == wire.KStruct && x.Kind != wire.KStruct && len(y.Ptrs) > 0 {
					y = y.Ptrs[0]
				}
				if ambiguousForEqual(x, y) {
					return true
				}
			}
		}
	}
	return false
}
