// Package textsim simulates long-lived text.Encoders writing to a faulty
// writer (property C20): the output must be a well-formed text value from
// which every field value can be recovered, must show the values that were set
// through the generated accessors, and must not depend on how many values the
// encoder has rendered before.
package textsim

import (
	"bytes"
	"fmt"
	"io"
	"math"
	"strconv"
	"testing"

	capnp "capnproto.org/go/capnp/v3"
	"capnproto.org/go/capnp/v3/encoding/text"
	"capnproto.org/go/capnp/v3/schemas"
	air "capnproto.org/go/capnp/v3/simaircraft"
	"capnproto.org/go/capnp/v3/std/capnp/schema"
	"capnproto.org/go/capnp/v3/simrt"
	"verifh/ref/textlit"
	"verifh/simio"
	"verifh/worker"
)

type Engine struct{}

func (Engine) Name() string { return "textsim" }

func init() {
	// warm the process-wide schema registry outside any run
	_, seg, _ := capnp.NewMessage(capnp.SingleSegment(nil))
	z, _ := air.NewRootZ(seg)
	if _, err := text.Marshal(air.Z_TypeID, z.Struct); err != nil {
		panic("textsim warm-up: " + err.Error())
	}
	buildRegistries()
}

// Two more registries for the same type IDs (the "schema" half of "the output
// depends only on the struct and schema"): regV1 holds the compiled-in schema
// under an explicitly set registry, regV2 a second version of it in which every
// field and enumerant name carries the suffix "V2".  An encoder that is switched
// between them must render like a fresh encoder that was given the same registry.
var regV1, regV2 schemas.Registry

const v2Suffix = "V2"

func buildRegistries() {
	data, err := schemas.DefaultRegistry.Find(air.Z_TypeID)
	if err != nil {
		panic("textsim registries: " + err.Error())
	}
	mk := func(rename bool) *schemas.Schema {
		src, err := capnp.Unmarshal(append([]byte(nil), data...))
		if err != nil {
			panic("textsim registries: " + err.Error())
		}
		src.TraverseLimit = 1<<63 - 1
		sreq, err := schema.ReadRootCodeGeneratorRequest(src)
		if err != nil {
			panic("textsim registries: " + err.Error())
		}
		msg, seg, _ := capnp.NewMessage(capnp.SingleSegment(nil))
		msg.TraverseLimit = 1<<63 - 1
		req, _ := schema.NewRootCodeGeneratorRequest(seg)
		if err := req.Struct.CopyFrom(sreq.Struct); err != nil {
			panic("textsim registries: " + err.Error())
		}
		nodes, err := req.Nodes()
		if err != nil {
			panic("textsim registries: " + err.Error())
		}
		var ids []uint64
		seen := map[uint64]bool{}
		for i := 0; i < nodes.Len(); i++ {
			n := nodes.At(i)
			if !seen[n.Id()] { // the compiled-in request carries a few blank nodes with ID 0
				seen[n.Id()] = true
				ids = append(ids, n.Id())
			}
			if !rename {
				continue
			}
			switch n.Which() {
			case schema.Node_Which_structNode:
				fs, _ := n.StructNode().Fields()
				for j := 0; j < fs.Len(); j++ {
					name, _ := fs.At(j).Name()
					if err := fs.At(j).SetName(name + v2Suffix); err != nil {
						panic("textsim registries: " + err.Error())
					}
				}
			case schema.Node_Which_enum:
				es, _ := n.Enum().Enumerants()
				for j := 0; j < es.Len(); j++ {
					name, _ := es.At(j).Name()
					if err := es.At(j).SetName(name + v2Suffix); err != nil {
						panic("textsim registries: " + err.Error())
					}
				}
			}
		}
		out, err := msg.Marshal()
		if err != nil {
			panic("textsim registries: " + err.Error())
		}
		return &schemas.Schema{Bytes: out, Nodes: ids}
	}
	if err := regV1.Register(mk(false)); err != nil {
		panic("textsim registries: " + err.Error())
	}
	if err := regV2.Register(mk(true)); err != nil {
		panic("textsim registries: " + err.Error())
	}
}

// stripV2 undoes the renaming of regV2 on a parsed rendering.  ok is false if a
// field name or an identifier that should carry the suffix does not.
func stripV2(p *textlit.Value, isName func(string) bool) (bad string) {
	switch p.Kind {
	case textlit.Struct:
		for i := range p.Fields {
			n := p.Fields[i].Name
			if len(n) <= len(v2Suffix) || n[len(n)-len(v2Suffix):] != v2Suffix {
				return "field name " + strconv.Quote(n)
			}
			p.Fields[i].Name = n[:len(n)-len(v2Suffix)]
			if b := stripV2(p.Fields[i].V, isName); b != "" {
				return b
			}
		}
	case textlit.List:
		for _, it := range p.Items {
			if b := stripV2(it, isName); b != "" {
				return b
			}
		}
	case textlit.Token:
		n := p.Raw
		if len(n) > len(v2Suffix) && n[len(n)-len(v2Suffix):] == v2Suffix {
			p.Raw = n[:len(n)-len(v2Suffix)]
		} else if isName(n) {
			return "enumerant " + strconv.Quote(n)
		}
	}
	return ""
}

// ---- expected values

type xkind int

const (
	xVoid xkind = iota
	xBool
	xInt
	xUint
	xF32
	xF64
	xBytes // text or data literal
	xEnum  // name, or decimal number when out of range
	xStruct
	xList
	xMarker
)

type xfield struct {
	name string
	v    *xv
}

type xv struct {
	k      xkind
	b      bool
	i      int64
	u      uint64
	f      float64
	bytes  []byte
	s      string
	fields []xfield
	items  []*xv
}

func xs(fields ...xfield) *xv    { return &xv{k: xStruct, fields: fields} }
func fld(name string, v *xv) xfield { return xfield{name, v} }
func xl(items ...*xv) *xv        { return &xv{k: xList, items: items} }
func xt(b []byte) *xv            { return &xv{k: xBytes, bytes: append([]byte{}, b...)} }
func xi(i int64) *xv             { return &xv{k: xInt, i: i} }
func xu(u uint64) *xv            { return &xv{k: xUint, u: u} }

var airports = []string{"none", "jfk", "lax", "sfo", "luv", "dfw", "test"}

func xairport(v uint16) *xv {
	if int(v) < len(airports) {
		return &xv{k: xEnum, s: airports[v]}
	}
	return &xv{k: xEnum, s: strconv.Itoa(int(v))}
}

// compare checks a parsed rendering against the expected value.
func compare(p *textlit.Value, x *xv, path string) error {
	bad := func(format string, args ...interface{}) error {
		return fmt.Errorf("%s: %s", path, fmt.Sprintf(format, args...))
	}
	switch x.k {
	case xVoid:
		if p.Kind != textlit.Token || p.Raw != "void" {
			return bad("want void, text shows %v %q", p.Kind, p.Raw)
		}
	case xBool:
		if p.Kind != textlit.Token || p.Raw != strconv.FormatBool(x.b) {
			return bad("want %v, text shows %q", x.b, p.Raw)
		}
	case xInt:
		if v, err := strconv.ParseInt(p.Raw, 10, 64); p.Kind != textlit.Token || err != nil || v != x.i {
			return bad("want %d, text shows %q", x.i, p.Raw)
		}
	case xUint:
		if v, err := strconv.ParseUint(p.Raw, 10, 64); p.Kind != textlit.Token || err != nil || v != x.u {
			return bad("want %d, text shows %q", x.u, p.Raw)
		}
	case xF64:
		v, err := strconv.ParseFloat(p.Raw, 64)
		if p.Kind != textlit.Token || err != nil || !(v == x.f || (math.IsNaN(v) && math.IsNaN(x.f))) {
			return bad("want %v, text shows %q", x.f, p.Raw)
		}
	case xF32:
		v, err := strconv.ParseFloat(p.Raw, 32)
		if p.Kind != textlit.Token || err != nil || !(float32(v) == float32(x.f) || (math.IsNaN(v) && math.IsNaN(x.f))) {
			return bad("want %v, text shows %q", float32(x.f), p.Raw)
		}
	case xBytes:
		if p.Kind != textlit.String || !bytes.Equal(p.Str, x.bytes) {
			return bad("want the bytes %q, the literal in the text decodes to %q (kind %v)", x.bytes, p.Str, p.Kind)
		}
	case xEnum:
		if p.Kind != textlit.Token || p.Raw != x.s {
			return bad("want enumerant %s, text shows %q", x.s, p.Raw)
		}
	case xMarker:
		if p.Raw != x.s {
			return bad("want %s, text shows %q", x.s, p.Raw)
		}
	case xStruct:
		if p.Kind != textlit.Struct {
			return bad("want a struct, text shows kind %v %q", p.Kind, p.Raw)
		}
		if len(p.Fields) != len(x.fields) {
			var names []string
			for _, f := range p.Fields {
				names = append(names, f.Name)
			}
			return bad("want %d fields, text shows %d: %v", len(x.fields), len(p.Fields), names)
		}
		for i, f := range x.fields {
			if p.Fields[i].Name != f.name {
				return bad("field %d is %q, want %q", i, p.Fields[i].Name, f.name)
			}
			if err := compare(p.Fields[i].V, f.v, path+"."+f.name); err != nil {
				return err
			}
		}
	case xList:
		if p.Kind != textlit.List {
			return bad("want a list, text shows kind %v %q", p.Kind, p.Raw)
		}
		if len(p.Items) != len(x.items) {
			return bad("want %d elements, text shows %d", len(x.items), len(p.Items))
		}
		for i := range x.items {
			if err := compare(p.Items[i], x.items[i], fmt.Sprintf("%s[%d]", path, i)); err != nil {
				return err
			}
		}
	}
	return nil
}

// ---- value generation through the generated accessors

type gen struct {
	s *simrt.Sched
}

func (g *gen) bytesN(n int, text bool) []byte {
	b := make([]byte, n)
	for i := range b {
		switch g.s.Choice("byte-class", 6) {
		case 0:
			b[i] = []byte{'"', '\\', '\'', '?', '<', ')'}[g.s.Choice("special", 6)]
		case 1:
			b[i] = byte(1 + g.s.Choice("ctl", 31)) // control characters
		case 2:
			b[i] = byte(0x7f + g.s.Choice("hi", 0x81)) // DEL and bytes >= 0x80
		case 3:
			if !text {
				b[i] = 0
			} else {
				b[i] = 'n'
			}
		default:
			b[i] = byte(0x20 + g.s.Choice("printable", 0x5f))
		}
	}
	return b
}

func (g *gen) text() []byte { return g.bytesN(g.s.Choice("textlen", 12), true) }
func (g *gen) data() []byte { return g.bytesN(g.s.Choice("datalen", 12), false) }

func (g *gen) i64() int64 {
	vals := []int64{0, 1, -1, 127, -128, 32767, -32768, math.MaxInt32, math.MinInt32, math.MaxInt64, math.MinInt64, 123456789}
	return vals[g.s.Choice("i64", len(vals))]
}

func (g *gen) f64() float64 {
	vals := []float64{0, 1.5, -2.25, 3.14, 1e300, 5e-324, math.Inf(1), math.Inf(-1), math.NaN(), 0.1, 1e21, 123456789.125}
	return vals[g.s.Choice("f64", len(vals))]
}

func (g *gen) planeBase(pb air.PlaneBase) *xv {
	s := g.s
	name := xt(nil)
	if s.Choice("pb-name", 2) == 1 {
		t := g.text()
		pb.SetName(string(t))
		name = xt(t)
	}
	homes := xl()
	if n := s.Choice("pb-homes", 4); n > 0 {
		l, _ := pb.NewHomes(int32(n))
		for i := 0; i < n; i++ {
			a := uint16(s.Choice("airport", 9))
			l.Set(i, air.Airport(a))
			homes.items = append(homes.items, xairport(a))
		}
	}
	rating := g.i64()
	pb.SetRating(rating)
	canFly := s.Choice("canfly", 2) == 1
	pb.SetCanFly(canFly)
	capa := g.i64()
	pb.SetCapacity(capa)
	ms := g.f64()
	pb.SetMaxSpeed(ms)
	return xs(fld("name", name), fld("homes", homes), fld("rating", xi(rating)), fld("canFly", &xv{k: xBool, b: canFly}),
		fld("capacity", xi(capa)), fld("maxSpeed", &xv{k: xF64, f: ms}))
}

func (g *gen) zdate(d air.Zdate) *xv {
	y, m, dd := int16(g.i64()), uint8(g.s.Choice("month", 256)), uint8(g.s.Choice("day", 256))
	d.SetYear(y)
	d.SetMonth(m)
	d.SetDay(dd)
	return xs(fld("year", xi(int64(y))), fld("month", xu(uint64(m))), fld("day", xu(uint64(dd))))
}

func (g *gen) aircraft(a air.Aircraft) *xv {
	switch g.s.Choice("aircraft", 4) {
	case 0:
		a.SetVoid()
		return xs(fld("void", &xv{k: xVoid}))
	case 1:
		b, _ := a.NewB737()
		pb, _ := b.NewBase()
		return xs(fld("b737", xs(fld("base", g.planeBase(pb)))))
	case 2:
		b, _ := a.NewA320()
		pb, _ := b.NewBase()
		return xs(fld("a320", xs(fld("base", g.planeBase(pb)))))
	default:
		b, _ := a.NewF16()
		pb, _ := b.NewBase()
		return xs(fld("f16", xs(fld("base", g.planeBase(pb)))))
	}
}

// z fills a Z with one tape-chosen union member and returns what the text must show.
func (g *gen) z(z air.Z, depth int) *xv {
	s := g.s
	one := func(name string, v *xv) *xv { return xs(fld(name, v)) }
	n := 34
	k := s.Choice("z-member", n)
	if depth <= 0 && (k == 1 || k == 24 || k == 25) {
		k = 0
	}
	switch k {
	case 0:
		z.SetVoid()
		return one("void", &xv{k: xVoid})
	case 1:
		zz, _ := z.NewZz()
		return one("zz", g.z(zz, depth-1))
	case 2:
		v := g.f64()
		z.SetF64(v)
		return one("f64", &xv{k: xF64, f: v})
	case 3:
		v := float32(g.f64())
		z.SetF32(v)
		return one("f32", &xv{k: xF32, f: float64(v)})
	case 4:
		v := g.i64()
		z.SetI64(v)
		return one("i64", xi(v))
	case 5:
		v := int32(g.i64())
		z.SetI32(v)
		return one("i32", xi(int64(v)))
	case 6:
		v := int16(g.i64())
		z.SetI16(v)
		return one("i16", xi(int64(v)))
	case 7:
		v := int8(g.i64())
		z.SetI8(v)
		return one("i8", xi(int64(v)))
	case 8:
		v := uint64(g.i64())
		z.SetU64(v)
		return one("u64", xu(v))
	case 9:
		v := uint32(g.i64())
		z.SetU32(v)
		return one("u32", xu(uint64(v)))
	case 10:
		v := uint16(g.i64())
		z.SetU16(v)
		return one("u16", xu(uint64(v)))
	case 11:
		v := uint8(g.i64())
		z.SetU8(v)
		return one("u8", xu(uint64(v)))
	case 12:
		v := s.Choice("bool", 2) == 1
		z.SetBool(v)
		return one("bool", &xv{k: xBool, b: v})
	case 13:
		t := g.text()
		z.SetText(string(t))
		return one("text", xt(t))
	case 14:
		d := g.data()
		z.SetBlob(d)
		return one("blob", xt(d))
	case 15:
		nn := s.Choice("veclen", 4)
		l, _ := z.NewF64vec(int32(nn))
		x := xl()
		for i := 0; i < nn; i++ {
			v := g.f64()
			l.Set(i, v)
			x.items = append(x.items, &xv{k: xF64, f: v})
		}
		return one("f64vec", x)
	case 16:
		nn := s.Choice("veclen", 4)
		l, _ := z.NewF32vec(int32(nn))
		x := xl()
		for i := 0; i < nn; i++ {
			v := float32(g.f64())
			l.Set(i, v)
			x.items = append(x.items, &xv{k: xF32, f: float64(v)})
		}
		return one("f32vec", x)
	case 17:
		nn := s.Choice("veclen", 4)
		l, _ := z.NewI64vec(int32(nn))
		x := xl()
		for i := 0; i < nn; i++ {
			v := g.i64()
			l.Set(i, v)
			x.items = append(x.items, xi(v))
		}
		return one("i64vec", x)
	case 18:
		nn := s.Choice("veclen", 4)
		l, _ := z.NewI8vec(int32(nn))
		x := xl()
		for i := 0; i < nn; i++ {
			v := int8(g.i64())
			l.Set(i, v)
			x.items = append(x.items, xi(int64(v)))
		}
		return one("i8vec", x)
	case 19:
		nn := s.Choice("veclen", 4)
		l, _ := z.NewU16vec(int32(nn))
		x := xl()
		for i := 0; i < nn; i++ {
			v := uint16(g.i64())
			l.Set(i, v)
			x.items = append(x.items, xu(uint64(v)))
		}
		return one("u16vec", x)
	case 20:
		nn := s.Choice("veclen", 4)
		l, _ := z.NewU8vec(int32(nn))
		x := xl()
		for i := 0; i < nn; i++ {
			v := uint8(g.i64())
			l.Set(i, v)
			x.items = append(x.items, xu(uint64(v)))
		}
		return one("u8vec", x)
	case 21:
		nn := s.Choice("veclen", 10)
		l, _ := z.NewBoolvec(int32(nn))
		x := xl()
		for i := 0; i < nn; i++ {
			v := s.Choice("bool", 2) == 1
			l.Set(i, v)
			x.items = append(x.items, &xv{k: xBool, b: v})
		}
		return one("boolvec", x)
	case 22:
		nn := s.Choice("veclen", 4)
		l, _ := z.NewDatavec(int32(nn))
		x := xl()
		for i := 0; i < nn; i++ {
			d := g.data()
			l.Set(i, d)
			x.items = append(x.items, xt(d))
		}
		return one("datavec", x)
	case 23:
		nn := s.Choice("veclen", 4)
		l, _ := z.NewTextvec(int32(nn))
		x := xl()
		for i := 0; i < nn; i++ {
			t := g.text()
			l.Set(i, string(t))
			x.items = append(x.items, xt(t))
		}
		return one("textvec", x)
	case 24:
		nn := s.Choice("veclen", 3)
		l, _ := z.NewZvec(int32(nn))
		x := xl()
		for i := 0; i < nn; i++ {
			x.items = append(x.items, g.z(l.At(i), depth-1))
		}
		return one("zvec", x)
	case 25:
		nn := s.Choice("veclen", 3)
		ll, _ := z.NewZvecvec(int32(nn))
		x := xl()
		for i := 0; i < nn; i++ {
			m := s.Choice("veclen", 3)
			inner, _ := air.NewZ_List(z.Segment(), int32(m))
			xin := xl()
			for j := 0; j < m; j++ {
				xin.items = append(xin.items, g.z(inner.At(j), depth-1))
			}
			ll.Set(i, inner.List.ToPtr())
			x.items = append(x.items, xin)
		}
		return one("zvecvec", x)
	case 26:
		d, _ := z.NewZdate()
		return one("zdate", g.zdate(d))
	case 27:
		zd, _ := z.NewZdata()
		d := g.data()
		x := xt(nil)
		if s.Choice("zdata-set", 3) != 0 {
			zd.SetData(d)
			x = xt(d)
		}
		return one("zdata", xs(fld("data", x)))
	case 28:
		nn := s.Choice("veclen", 3)
		l, _ := z.NewAircraftvec(int32(nn))
		x := xl()
		for i := 0; i < nn; i++ {
			x.items = append(x.items, g.aircraft(l.At(i)))
		}
		return one("aircraftvec", x)
	case 29:
		pb, _ := z.NewPlanebase()
		return one("planebase", g.planeBase(pb))
	case 30:
		a := uint16(s.Choice("airport", 9))
		z.SetAirport(air.Airport(a))
		return one("airport", xairport(a))
	case 31:
		nn := s.Choice("veclen", 3)
		l, _ := z.NewZdatevec(int32(nn))
		x := xl()
		for i := 0; i < nn; i++ {
			x.items = append(x.items, g.zdate(l.At(i)))
		}
		return one("zdatevec", x)
	case 32:
		z.SetGrp()
		a, b := uint64(g.i64()), uint64(g.i64())
		z.Grp().SetFirst(a)
		z.Grp().SetSecond(b)
		return one("grp", xs(fld("first", xu(a)), fld("second", xu(b))))
	default:
		a, _ := z.NewAircraft()
		return one("aircraft", g.aircraft(a))
	}
}

type sample struct {
	typeID uint64
	st     capnp.Struct
	want   *xv
}

func (g *gen) value() sample {
	s := g.s
	_, seg, err := capnp.NewMessage(capnp.SingleSegment(nil))
	if err != nil {
		panic(err)
	}
	switch s.Choice("root-type", 8) {
	case 0:
		d, _ := air.NewRootDefaults(seg)
		tx, dt := xt([]byte("foo")), xt([]byte("bar"))
		fl, in, un := float32(3.14), int32(-123), uint32(42)
		if s.Choice("def-text", 2) == 1 {
			t := g.text()
			if len(t) > 0 {
				d.SetText(string(t))
				tx = xt(t)
			}
		}
		if s.Choice("def-data", 2) == 1 {
			b := g.data()
			d.SetData(b)
			dt = xt(b)
		}
		if s.Choice("def-float", 2) == 1 {
			fl = float32(g.f64())
			d.SetFloat(fl)
		}
		if s.Choice("def-int", 2) == 1 {
			in = int32(g.i64())
			d.SetInt(in)
		}
		if s.Choice("def-uint", 2) == 1 {
			un = uint32(g.i64())
			d.SetUint(un)
		}
		return sample{air.Defaults_TypeID, d.Struct, xs(fld("text", tx), fld("data", dt), fld("float", &xv{k: xF32, f: float64(fl)}), fld("int", xi(int64(in))), fld("uint", xu(uint64(un))))}
	case 1:
		h, _ := air.NewRootHoldsText(seg)
		txt := xt(nil)
		if s.Choice("ht-txt", 2) == 1 {
			t := g.text()
			h.SetTxt(string(t))
			txt = xt(t)
		}
		lst := xl()
		if n := s.Choice("ht-lst", 4); n > 0 {
			l, _ := h.NewLst(int32(n))
			for i := 0; i < n; i++ {
				t := g.text()
				l.Set(i, string(t))
				lst.items = append(lst.items, xt(t))
			}
		}
		ll := xl()
		if n := s.Choice("ht-lstlst", 3); n > 0 {
			outer, _ := h.NewLstlst(int32(n))
			for i := 0; i < n; i++ {
				m := s.Choice("ht-inner", 3)
				inner, _ := capnp.NewTextList(seg, int32(m))
				xin := xl()
				for j := 0; j < m; j++ {
					t := g.text()
					inner.Set(j, string(t))
					xin.items = append(xin.items, xt(t))
				}
				outer.Set(i, inner.List.ToPtr())
				ll.items = append(ll.items, xin)
			}
		}
		return sample{air.HoldsText_TypeID, h.Struct, xs(fld("txt", txt), fld("lst", lst), fld("lstlst", ll))}
	case 2:
		d, _ := air.NewRootZdate(seg)
		return sample{air.Zdate_TypeID, d.Struct, g.zdate(d)}
	default:
		z, _ := air.NewRootZ(seg)
		return sample{air.Z_TypeID, z.Struct, g.z(z, 2)}
	}
}

// ---- the run

// byteSink adds io.ByteWriter to the simulated writer (single bytes go through the same fault plan).
type byteSink struct{ w *simio.Writer }

func (b byteSink) Write(p []byte) (int, error) { return b.w.Write(p) }
func (b byteSink) WriteByte(c byte) error {
	_, err := b.w.Write([]byte{c})
	return err
}

func short(b []byte) string {
	if len(b) > 300 {
		return fmt.Sprintf("%q...(%d bytes)", b[:300], len(b))
	}
	return fmt.Sprintf("%q", b)
}

func (Engine) Run(t *testing.T, tape *simrt.Tape, opt worker.Options) *worker.Outcome {
	encodes := 0
	var key uint64
	var desc []string
	regs := opt.Params["reg"] == "1" || !tape.Replaying()
	body := func(s *simrt.Sched) {
		g := &gen{s: s}
		long := s.Chance("long-history", 1, 60)
		n := 3 + s.Choice("history", 40)
		if long {
			n = 60000 + 20000*s.Choice("long-len", 3)
			s.Probe("long_history_run")
		}
		desc = append(desc, fmt.Sprintf("one encoder, %d consecutive Encode calls", n))
		var sink bytes.Buffer
		old := text.NewEncoder(&sink)
		var fixed sample
		// which registry the encoder is using: 0 = never told (the default one), 1 = the default
		// registry set explicitly, 2 = regV1, 3 = regV2
		cur := 0
		useReg := func(e *text.Encoder, r int) {
			switch r {
			case 1:
				e.UseRegistry(&schemas.DefaultRegistry)
			case 2:
				e.UseRegistry(&regV1)
			case 3:
				e.UseRegistry(&regV2)
			}
		}
		for i := 0; i < n && !s.Failed(); i++ {
			if regs && s.Chance("switch-registry", 1, 5) {
				cur = 1 + s.Choice("registry", 3)
				useReg(old, cur)
				s.Probe("registry_switch")
				if cur == 3 {
					s.Probe("registry_v2")
				}
			}
			var v sample
			if long && i > 0 && i%97 != 0 {
				v = fixed // re-render one value most of the time: cheap, and the history is what matters
			} else {
				v = g.value()
				fixed = v
			}
			encodes++
			sink.Reset()
			errOld := old.Encode(v.typeID, v.st)
			gotOld := append([]byte(nil), sink.Bytes()...)
			var fb bytes.Buffer
			fresh := text.NewEncoder(&fb)
			useReg(fresh, cur)
			errNew := fresh.Encode(v.typeID, v.st)
			gotNew := fb.Bytes()
			if (errOld == nil) != (errNew == nil) || !bytes.Equal(gotOld, gotNew) {
				s.Fail("text_history", "marshal.go:(*Encoder).Encode", fmt.Sprintf("Encode #%d on a long-lived encoder gives %s (err=%v) but a fresh encoder gives %s (err=%v) for the same value", i+1, short(gotOld), errOld, short(gotNew), errNew))
				return
			}
			if long && i%97 != 0 {
				continue // the literal oracle has seen this value already
			}
			if errNew != nil {
				s.Fail("text_literal", "marshal.go:(*Encoder).Encode", fmt.Sprintf("Encode failed on a well-formed value of type %#x: %v", v.typeID, errNew))
				return
			}
			key = key*1099511628211 ^ simrt.Hash64(string(gotNew))
			pv, err := textlit.Parse(gotNew)
			if err != nil {
				s.Fail("text_literal", "strquote.go:Append", fmt.Sprintf("the rendering is not a well-formed text value: %v\ntext: %s", err, short(gotNew)))
				return
			}
			if cur == 3 {
				if b := stripV2(pv, func(n string) bool {
					for _, a := range airports {
						if a == n {
							return true
						}
					}
					return false
				}); b != "" {
					s.Fail("text_schema", "marshal.go:(*Encoder).UseRegistry", fmt.Sprintf("the encoder was given a registry in which every name ends in %q, but the text shows %s\ntext: %s", v2Suffix, b, short(gotNew)))
					return
				}
			}
			if err := compare(pv, v.want, "value"); err != nil {
				s.Fail("text_literal", "marshal.go:(*Encoder).marshalFieldValue", fmt.Sprintf("the rendering does not show the values set through the generated accessors: %v\ntext: %s", err, short(gotNew)))
				return
			}
			// writer fault: the k-th Write fails (after accepting a prefix)
			if s.Chance("writer-fault", 1, 4) && len(gotNew) > 0 {
				w := &simio.Writer{}
				failAt := 1 + s.Choice("write-fail-at", 12)
				// write-accept 0..2: bytes accepted by the failing write; 3..8: the same, with a writer that
				// also implements io.ByteWriter (3..5) and/or fails only momentarily (6..8: both)
				accept := s.Choice("write-accept", 9)
				asByteWriter, transient := accept >= 3, accept >= 6
				accept %= 3
				w.Plan = func(w *simio.Writer, p []byte) (int, error) {
					if w.Writes == failAt {
						s.Fault("write_err")
						a := accept
						if a > len(p) {
							a = len(p)
						}
						return a, simio.ErrInjected
					}
					if w.Writes > failAt {
						s.Probe("write_after_error")
						if transient {
							// the fault was momentary: later writes would be accepted, but an encoder
							// that has seen a write fail must not go on writing behind the hole
							return len(p), nil
						}
						return 0, simio.ErrInjected
					}
					return len(p), nil
				}
				var sink io.Writer = w
				if asByteWriter {
					sink = byteSink{w}
				}
				enc := text.NewEncoder(sink)
				useReg(enc, cur)
				err := enc.Encode(v.typeID, v.st)
				fired := w.Writes >= failAt
				if fired && err == nil {
					s.Fail("text_write_error_swallowed", "marshal.go:(*Encoder).Encode", fmt.Sprintf("write #%d failed but Encode returned nil; %d bytes were written of %d", failAt, len(w.Buf), len(gotNew)))
					return
				}
				if !bytes.HasPrefix(gotNew, w.Buf) {
					s.Fail("text_literal", "marshal.go:(*errWriter).Write", fmt.Sprintf("after a write error the bytes that reached the writer (%s) are not a prefix of the rendering (%s)", short(w.Buf), short(gotNew)))
					return
				}
				if fired {
					if err2 := enc.Encode(v.typeID, v.st); err2 == nil {
						s.Fail("text_write_error_swallowed", "marshal.go:(*Encoder).Encode", "an encoder whose writer failed reported success on the next Encode")
						return
					}
				}
			}
		}
	}
	res := simrt.RunInline(simrt.Config{Tape: tape, Trace: opt.Trace}, body)
	oc := &worker.Outcome{Res: res, Verdict: res.Verdict, Ops: encodes, Probes: res.Probes, Faults: res.Faults}
	oc.NonTrivial = encodes > 1
	oc.Key = key
	oc.Sample = map[string]interface{}{"history": desc, "encodes": encodes}
	if regs {
		oc.ReplayParams = map[string]string{"reg": "1"}
	}
	if oc.Probes == nil {
		oc.Probes = map[string]int{}
	}
	oc.Probes["encodes"] += encodes
	if oc.Verdict != nil {
		oc.Pattern = oc.Verdict.Oracle
	}
	return oc
}
