package textsim

import (
	"testing"

	"verifh/worker"
)

func TestWorker(t *testing.T) { worker.Main(t, Engine{}) }
