// Package promsim simulates pipelined calls, pipelined clients, Fulfill /
// Reject / Join and ReleaseClients on capnp.Promise (property C11).
package promsim

import (
	"context"
	"fmt"
	"strings"
	"testing"

	capnp "capnproto.org/go/capnp/v3"
	"capnproto.org/go/capnp/v3/simrt"
	"verifh/worker"
)

type Engine struct{}

func (Engine) Name() string { return "promsim" }

// ---- model

type hookM struct {
	id       int
	shutdown int
	active   int
}

type promM struct {
	id          int
	p           *capnp.Promise
	kind        int // 0 fulfill 1 reject 2 join
	joinTo      *promM
	invoked     bool // resolver operation invoked
	returned    bool // resolver operation returned
	inCaller    int  // deliveries executing inside this promise's PipelineCaller
	caps        map[string]*hookM // path key -> hook in the result (fulfil only)
	result      capnp.Struct
	msg         *capnp.Message
	rcInvoked   bool // ReleaseClients invoked by someone
	rcCalls     int
	borrowedUse int
	rcWanted    bool
	viaUse      int  // calls through pipelined clients in progress (component-wide)
	resolving   bool // resolver operation in progress
}

type callRec struct {
	id        int
	prom      *promM
	path      string
	toCaller  []int // promise ids whose PipelineCaller saw it
	toHook    []int // result hook ids that saw it
	cancelled bool
	done      bool
	viaClient bool
}

type run struct {
	s       *simrt.Sched
	proms   []*promM
	hooks   []*hookM
	calls   map[int]*callRec
	nextCal int
	ops     int
	final   bool
	avoid   map[string]bool
	guard   bool // avoidance guard for the known pending-resolution deadlock is active in this run
	lent    []*lentClient
}

// lentClient is a pipelined client obtained from Future.Client (borrowed reference).
type lentClient struct {
	c          *capnp.Client
	pm         *promM
	path       string
	wasPromise bool
	task       int
}

// chainReturned reports whether every resolver operation on pm's join chain has returned.
func (r *run) chainReturned(pm *promM) bool {
	for q := pm; ; q = q.joinTo {
		if !q.returned {
			return false
		}
		if q.kind != 2 {
			return true
		}
	}
}

func (r *run) via(pm *promM, d int) {
	for _, q := range r.component(pm) {
		q.viaUse += d
	}
}

func (r *run) resolvingInComponent(pm *promM) bool {
	for _, q := range r.component(pm) {
		if q.resolving {
			return true
		}
	}
	return false
}

// chainEnd follows joins that have been invoked.
func chainOf(p *promM) []*promM {
	out := []*promM{p}
	for p.kind == 2 && p.invoked && p.joinTo != nil {
		p = p.joinTo
		out = append(out, p)
	}
	return out
}

// staticEnd follows the planned join chain (whether or not invoked yet).
func staticEnd(p *promM) *promM {
	for p.kind == 2 {
		p = p.joinTo
	}
	return p
}

func pathKey(t []capnp.PipelineOp) string {
	var b strings.Builder
	for _, op := range t {
		fmt.Fprintf(&b, "%d.", op.Field)
	}
	return b.String()
}

// ---- instrumented result capability

type resHook struct {
	r *run
	m *hookM
}

func (h *resHook) deliver(what string, id int) {
	r := h.r
	if h.m.shutdown > 0 {
		r.s.Fail("call_after_shutdown", "answer.go:"+what, fmt.Sprintf("call %d reached result capability R%d after its Shutdown", id, h.m.id))
	}
	if cr := r.calls[id]; cr != nil {
		cr.toHook = append(cr.toHook, h.m.id)
	}
	r.s.Logf("result hook R%d %s call=%d", h.m.id, what, id)
	h.m.active++
	n := r.s.Choice("hook-hold", 3)
	for i := 0; i < n; i++ {
		simrt.YieldAt("res-hook")
	}
	h.m.active--
}

func (h *resHook) Send(ctx context.Context, s capnp.Send) (*capnp.Answer, capnp.ReleaseFunc) {
	id := int(s.Method.InterfaceID)
	h.deliver("Send", id)
	return capnp.ErrorAnswer(s.Method, fmt.Errorf("hook:%d:%d", h.m.id, id)), func() {}
}

func (h *resHook) Recv(ctx context.Context, r capnp.Recv) capnp.PipelineCaller {
	id := int(r.Method.InterfaceID)
	h.deliver("Recv", id)
	r.Reject(fmt.Errorf("hook:%d:%d", h.m.id, id))
	return nil
}

func (h *resHook) Brand() capnp.Brand { return capnp.Brand{Value: h.m.id} }

func (h *resHook) Shutdown() {
	r := h.r
	h.m.shutdown++
	r.s.Logf("result hook R%d Shutdown", h.m.id)
	if h.m.shutdown > 1 {
		r.s.Fail("shutdown_twice", "answer.go:Shutdown", fmt.Sprintf("result capability R%d shut down %d times", h.m.id, h.m.shutdown))
	}
	if !r.final {
		r.s.Fail("shutdown_while_referenced", "answer.go:Shutdown", fmt.Sprintf("result capability R%d shut down while the result message still holds its reference", h.m.id))
	}
	if h.m.active > 0 {
		r.s.Fail("shutdown_during_call", "answer.go:Shutdown", fmt.Sprintf("result capability R%d shut down during a call", h.m.id))
	}
}

// ---- instrumented pipeline caller

type simPC struct {
	r  *run
	pm *promM
}

func (pc *simPC) deliver(what string, id int) {
	r := pc.r
	pm := pc.pm
	if cr := r.calls[id]; cr != nil {
		cr.toCaller = append(cr.toCaller, pm.id)
	}
	r.s.Logf("pipeline caller P%d %s call=%d begin", pm.id, what, id)
	if pm.returned {
		r.s.Fail("delivered_to_caller_after_resolve", "answer.go:"+what, fmt.Sprintf("call %d delivered to the PipelineCaller of P%d after its %s had returned", id, pm.id, kindName(pm.kind)))
	}
	pm.inCaller++
	n := r.s.Choice("pc-hold", 4)
	for i := 0; i < n; i++ {
		simrt.YieldAt("pcaller")
	}
	pm.inCaller--
	r.s.Logf("pipeline caller P%d %s call=%d end", pm.id, what, id)
}

func (pc *simPC) PipelineSend(ctx context.Context, transform []capnp.PipelineOp, s capnp.Send) (*capnp.Answer, capnp.ReleaseFunc) {
	id := int(s.Method.InterfaceID)
	pc.deliver("PipelineSend", id)
	return capnp.ErrorAnswer(s.Method, fmt.Errorf("pcaller:%d:%d", pc.pm.id, id)), func() {}
}

func (pc *simPC) PipelineRecv(ctx context.Context, transform []capnp.PipelineOp, r capnp.Recv) capnp.PipelineCaller {
	id := int(r.Method.InterfaceID)
	pc.deliver("PipelineRecv", id)
	r.Reject(fmt.Errorf("pcaller:%d:%d", pc.pm.id, id))
	return nil
}

func kindName(k int) string { return [...]string{"Fulfill", "Reject", "Join"}[k] }

type fakeReturner struct {
	rets int
	err  error
}

func (f *fakeReturner) AllocResults(sz capnp.ObjectSize) (capnp.Struct, error) {
	_, seg, err := capnp.NewMessage(capnp.SingleSegment(nil))
	if err != nil {
		return capnp.Struct{}, err
	}
	return capnp.NewRootStruct(seg, sz)
}
func (f *fakeReturner) Return(e error) { f.rets++; f.err = e }

// ---- result messages

// buildResult creates: root{ptr0: cap A, ptr1: cap B or null, ptr2: struct{ptr0: cap C}}
func (r *run) buildResult(pm *promM) {
	s := r.s
	msg, seg, err := capnp.NewMessage(capnp.SingleSegment(nil))
	if err != nil {
		panic(err)
	}
	// (258 pointers: a pipelined path may name a field index that does not fit in one byte)
	root, _ := capnp.NewRootStruct(seg, capnp.ObjectSize{DataSize: 8, PointerCount: 258})
	pm.caps = map[string]*hookM{}
	addCap := func() (*hookM, capnp.Ptr) {
		m := &hookM{id: len(r.hooks)}
		r.hooks = append(r.hooks, m)
		id := msg.AddCap(capnp.NewClient(&resHook{r: r, m: m}))
		return m, capnp.NewInterface(seg, id).ToPtr()
	}
	a, pa := addCap()
	root.SetPtr(0, pa)
	pm.caps["0."] = a
	if s.Choice("cap-b", 2) == 1 {
		b, pb := addCap()
		root.SetPtr(1, pb)
		pm.caps["1."] = b
	}
	inner, _ := capnp.NewStruct(seg, capnp.ObjectSize{PointerCount: 1})
	c, pc := addCap()
	inner.SetPtr(0, pc)
	root.SetPtr(2, inner.ToPtr())
	pm.caps["2.0."] = c
	d, pd := addCap()
	root.SetPtr(257, pd)
	pm.caps["257."] = d
	pm.result = root
	pm.msg = msg
}

var paths = [][]uint16{{0}, {1}, {2, 0}, {0}, {2}, {}, {3}, {257}, {256}}

func (r *run) pickTransform() []capnp.PipelineOp {
	p := paths[r.s.Choice("path", len(paths))]
	t := make([]capnp.PipelineOp, len(p))
	for i, f := range p {
		t[i] = capnp.PipelineOp{Field: f}
	}
	return t
}

// ---- call checking

// expected target of a call on promise pm with path: hook or nil when the
// final resolution designates no capability (error / null / not a capability)
func (r *run) designated(pm *promM, path string) (h *hookM, resolvedInvoked bool) {
	end := staticEnd(pm)
	// the whole chain from pm to end must have been invoked for a result delivery to be possible
	for q := pm; ; q = q.joinTo {
		if !q.invoked {
			return nil, false
		}
		if q.kind != 2 {
			break
		}
	}
	if end.kind == 0 {
		return end.caps[path], true
	}
	return nil, true
}

func (r *run) finishCall(cr *callRec, err error) {
	s := r.s
	cr.done = true
	s.Logf("call %d on P%d path %q -> err=%v caller=%v hook=%v", cr.id, cr.prom.id, cr.path, err, cr.toCaller, cr.toHook)
	n := len(cr.toCaller) + len(cr.toHook)
	if n > 1 {
		s.Fail("delivered_twice", "answer.go:PipelineSend", fmt.Sprintf("call %d delivered %d times: pipeline callers %v, result capabilities %v", cr.id, n, cr.toCaller, cr.toHook))
		return
	}
	if len(cr.toCaller) == 1 {
		// must be a promise of the join chain
		ok := false
		for q := cr.prom; q != nil; q = q.joinTo {
			if q.id == cr.toCaller[0] {
				ok = true
			}
			if q.kind != 2 {
				break
			}
		}
		if !ok {
			s.Fail("misdelivered", "answer.go:PipelineSend", fmt.Sprintf("call %d on P%d delivered to pipeline caller of unrelated P%d", cr.id, cr.prom.id, cr.toCaller[0]))
			return
		}
		want := fmt.Sprintf("pcaller:%d:%d", cr.toCaller[0], cr.id)
		if err == nil || !strings.Contains(err.Error(), want) {
			s.Fail("wrong_answer", "answer.go:PipelineSend", fmt.Sprintf("call %d delivered to pipeline caller P%d but its answer is %v", cr.id, cr.toCaller[0], err))
		}
		return
	}
	want, resolved := r.designated(cr.prom, cr.path)
	if len(cr.toHook) == 1 {
		if !resolved || want == nil || want.id != cr.toHook[0] {
			w := "none"
			if want != nil {
				w = fmt.Sprintf("R%d", want.id)
			}
			s.Fail("misdelivered", "answer.go:PipelineSend", fmt.Sprintf("call %d on P%d path %q delivered to R%d; designated capability: %s (resolution invoked: %v)", cr.id, cr.prom.id, cr.path, cr.toHook[0], w, resolved))
			return
		}
		w := fmt.Sprintf("hook:%d:%d", cr.toHook[0], cr.id)
		if err == nil || !strings.Contains(err.Error(), w) {
			s.Fail("wrong_answer", "answer.go:PipelineSend", fmt.Sprintf("call %d delivered to R%d but its answer is %v", cr.id, cr.toHook[0], err))
		}
		return
	}
	// zero deliveries
	if err == nil {
		s.Fail("delivered_never", "answer.go:PipelineSend", fmt.Sprintf("call %d reached nobody and reported no error", cr.id))
		return
	}
	if cr.cancelled {
		return
	}
	if !resolved {
		s.Fail("delivered_never", "answer.go:PipelineSend", fmt.Sprintf("call %d on unresolved P%d was dropped with error %v although its context was not cancelled", cr.id, cr.prom.id, err))
		return
	}
	if want != nil {
		s.Fail("delivered_never", "answer.go:PipelineSend", fmt.Sprintf("call %d on P%d path %q should have reached R%d but failed with %v", cr.id, cr.prom.id, cr.path, want.id, err))
	}
}

func (r *run) newCall(pm *promM, t []capnp.PipelineOp) *callRec {
	r.nextCal++
	cr := &callRec{id: r.nextCal, prom: pm, path: pathKey(t)}
	r.calls[cr.id] = cr
	return cr
}

func (r *run) ctxFor(cr *callRec) (context.Context, context.CancelFunc) {
	ctx, cancel := context.WithCancel(context.Background())
	if r.s.Chance("precancel", 1, 8) {
		cr.cancelled = true
		cancel()
	}
	return ctx, cancel
}

// ---- tasks

type ownHandle struct {
	c    *capnp.Client
	pm   *promM
	path string
	live bool
}

func (r *run) worker(id int, nops int) {
	s := r.s
	var own []*ownHandle
	for i := 0; i < nops && !s.Failed(); i++ {
		r.ops++
		pm := r.proms[s.Choice("prom", len(r.proms))]
		switch op := s.Choice("op", 10); op {
		case 9: // call again through a pipelined client borrowed earlier (valid until ReleaseClients on its promise)
			var mine []*lentClient
			for _, lc := range r.lent {
				if lc.task == id && !lc.pm.rcInvoked && !lc.pm.rcWanted {
					mine = append(mine, lc)
				}
			}
			if len(mine) == 0 {
				continue
			}
			lc := mine[s.Choice("lent", len(mine))]
			if r.guard && r.resolvingInComponent(lc.pm) {
				continue
			}
			s.Probe("reuse_pipelined_client")
			r.borrow(lc.pm, +1)
			cr := r.newCall(lc.pm, nil)
			cr.path = lc.path
			cr.viaClient = true
			r.via(lc.pm, +1)
			ans, rel := lc.c.SendCall(context.Background(), capnp.Send{Method: capnp.Method{InterfaceID: uint64(cr.id)}})
			r.via(lc.pm, -1)
			_, err := ans.Struct()
			rel()
			r.finishCall(cr, err)
			r.borrow(lc.pm, -1)
		case 0, 1: // PipelineSend
			t := r.pickTransform()
			cr := r.newCall(pm, t)
			ctx, cancel := r.ctxFor(cr)
			s.Logf("task %d PipelineSend call %d on P%d path %q cancelled=%v", id, cr.id, pm.id, cr.path, cr.cancelled)
			ans, rel := pm.p.Answer().PipelineSend(ctx, t, capnp.Send{Method: capnp.Method{InterfaceID: uint64(cr.id)}})
			_, err := ans.Struct()
			rel()
			cancel()
			r.finishCall(cr, err)
		case 2: // PipelineRecv
			t := r.pickTransform()
			cr := r.newCall(pm, t)
			ctx, cancel := r.ctxFor(cr)
			fr := &fakeReturner{}
			s.Logf("task %d PipelineRecv call %d on P%d path %q cancelled=%v", id, cr.id, pm.id, cr.path, cr.cancelled)
			pc := pm.p.Answer().PipelineRecv(ctx, t, capnp.Recv{Method: capnp.Method{InterfaceID: uint64(cr.id)}, ReleaseArgs: func() {}, Returner: fr})
			cancel()
			if fr.rets != 1 {
				s.Fail("call_not_completed", "answer.go:PipelineRecv", fmt.Sprintf("call %d: Returner.Return called %d times (PipelineCaller %v)", cr.id, fr.rets, pc))
				return
			}
			r.finishCall(cr, fr.err)
		case 3, 4: // Future.Client() on a path, then use the borrowed client
			if pm.rcInvoked || pm.rcWanted {
				// a client borrowed from pm's answer is only valid until ReleaseClients(pm)
				continue
			}
			t := r.pickTransform()
			if r.avoid["same-path-client"] && r.clientAsked(pm, pathKey(t)) {
				continue
			}
			r.noteClientAsked(pm, pathKey(t))
			r.borrow(pm, +1)
			f := pm.p.Answer().Future()
			for _, op := range t {
				f = f.Field(op.Field, nil)
			}
			s.Logf("task %d Future.Client on P%d path %q", id, pm.id, pathKey(t))
			c := f.Client()
			s.Logf("task %d Future.Client on P%d path %q returned", id, pm.id, pathKey(t))
			lc := &lentClient{c: c, pm: pm, path: pathKey(t), task: id}
			if c != nil {
				lc.wasPromise = c.State().IsPromise
				r.lent = append(r.lent, lc)
			}
			switch s.Choice("use", 4) {
			case 3: // wait for the pipelined client to resolve (only once its whole chain has been resolved)
				if c != nil && r.chainReturned(pm) {
					s.Probe("resolve_on_pipelined_client")
					if err := c.Resolve(context.Background()); err != nil {
						s.Fail("pipelined_client_unresolved", "answer.go:(*Future).Client", fmt.Sprintf("Resolve on the pipelined client of P%d path %q failed: %v", pm.id, lc.path, err))
					}
					if c.State().IsPromise {
						s.Fail("pipelined_client_unresolved", "answer.go:(*Future).Client", fmt.Sprintf("pipelined client of P%d path %q is still a promise after its answer resolved", pm.id, lc.path))
					}
				}
			case 0: // call through the borrowed client
				if r.guard && r.resolvingInComponent(pm) {
					break
				}
				cr := r.newCall(pm, t)
				cr.viaClient = true
				r.via(pm, +1)
				ans, rel := c.SendCall(context.Background(), capnp.Send{Method: capnp.Method{InterfaceID: uint64(cr.id)}})
				r.via(pm, -1)
				_, err := ans.Struct()
				rel()
				r.finishCall(cr, err)
			case 1: // take our own reference
				d := c.AddRef()
				if d != nil {
					own = append(own, &ownHandle{c: d, pm: pm, path: pathKey(t), live: true})
				}
			}
			r.borrow(pm, -1)
		case 5: // call through an owned handle
			var live []*ownHandle
			for _, h := range own {
				if h.live {
					live = append(live, h)
				}
			}
			if len(live) == 0 {
				continue
			}
			h := live[s.Choice("own", len(live))]
			if r.guard && r.resolvingInComponent(h.pm) {
				continue
			}
			cr := r.newCall(h.pm, nil)
			cr.path = h.path
			cr.viaClient = true
			r.via(h.pm, +1)
			ans, rel := h.c.SendCall(context.Background(), capnp.Send{Method: capnp.Method{InterfaceID: uint64(cr.id)}})
			r.via(h.pm, -1)
			_, err := ans.Struct()
			rel()
			r.finishCall(cr, err)
		case 6: // release an owned handle
			for _, h := range own {
				if h.live {
					h.live = false
					h.c.Release()
					break
				}
			}
		case 7: // Struct() / Done()
			end := staticEnd(pm)
			select {
			case <-pm.p.Answer().Done():
				if !r.chainInvoked(pm) {
					s.Fail("resolved_early", "answer.go:Done", fmt.Sprintf("P%d reports done before its resolution was invoked", pm.id))
				}
			default:
			}
			if s.Choice("struct", 2) == 1 {
				_, err := pm.p.Answer().Struct()
				if (err == nil) != (end.kind == 0) {
					s.Fail("wrong_resolution", "answer.go:Struct", fmt.Sprintf("P%d Struct() error=%v but final resolution is %s", pm.id, err, kindName(end.kind)))
				}
				if !r.chainInvoked(pm) {
					s.Fail("resolved_early", "answer.go:Struct", fmt.Sprintf("P%d Struct() returned before its resolution was invoked", pm.id))
				}
			}
		case 8: // ReleaseClients
			r.releaseClients(id, pm)
		}
	}
	for _, h := range own {
		if h.live && !s.Failed() {
			h.live = false
			h.c.Release()
		}
	}
}

func (r *run) chainInvoked(pm *promM) bool {
	for q := pm; ; q = q.joinTo {
		if !q.invoked {
			return false
		}
		if q.kind != 2 {
			return true
		}
	}
}

var asked = map[*run]map[string]bool{}

func (r *run) clientAsked(pm *promM, path string) bool {
	return asked[r][fmt.Sprintf("%d/%s", staticEnd(pm).id, path)]
}
func (r *run) noteClientAsked(pm *promM, path string) {
	if asked[r] == nil {
		asked[r] = map[string]bool{}
	}
	asked[r][fmt.Sprintf("%d/%s", staticEnd(pm).id, path)] = true
}

// component handling: promises connected by joins share pipelined client tables
func (r *run) component(pm *promM) []*promM {
	end := staticEnd(pm)
	var out []*promM
	for _, q := range r.proms {
		if staticEnd(q) == end {
			out = append(out, q)
		}
	}
	return out
}

func (r *run) anyRCInComponent(pm *promM) bool {
	for _, q := range r.component(pm) {
		if q.rcInvoked || q.rcWanted {
			return true
		}
	}
	return false
}

func (r *run) borrow(pm *promM, d int) {
	pm.borrowedUse += d
}

func (r *run) releaseClients(task int, pm *promM) {
	s := r.s
	pm.rcWanted = true
	// borrowed pipelined clients become invalid: wait until nobody is using one
	s.Block("rc-gate", func() bool { return pm.borrowedUse == 0 })
	pm.rcInvoked = true
	pm.rcCalls++
	s.Logf("task %d ReleaseClients P%d", task, pm.id)
	pm.p.ReleaseClients()
	s.Logf("task %d ReleaseClients P%d returned", task, pm.id)
	if !r.chainInvoked(pm) {
		s.Fail("resolved_early", "answer.go:ReleaseClients", fmt.Sprintf("ReleaseClients on P%d returned before its resolution was invoked", pm.id))
	}
}

func (r *run) resolver(pm *promM) {
	s := r.s
	// (widened from 12: in the upper half the end of a join chain is only resolved once every
	// Join that leads to it has returned - Join waits for resolutions that are in progress and for
	// pipelined calls being delivered, never for a resolution that has not begun)
	n := s.Choice("resolve-delay", 24)
	afterJoins := n >= 12
	n %= 12
	for i := 0; i < n; i++ {
		simrt.YieldAt("resolver")
	}
	if s.Failed() {
		return
	}
	if afterJoins && pm.kind != 2 {
		var joiners []*promM
		for _, q := range r.proms {
			if q.kind != 2 {
				continue
			}
			for t := q.joinTo; t != nil; t = t.joinTo {
				if t == pm {
					joiners = append(joiners, q)
					break
				}
			}
		}
		if len(joiners) > 0 {
			s.Probe("chain_end_resolved_only_after_the_joins_returned")
			s.Block("joins-returned", func() bool {
				for _, q := range joiners {
					if !q.returned {
						return false
					}
				}
				return true
			})
		}
	}
	if r.guard {
		// known finding: a call through a pipelined client that arrives while the
		// promise is pending resolution deadlocks with ClientPromise.Fulfill
		s.Block("guard-resolver", func() bool { return pm.viaUse == 0 })
	}
	pm.resolving = true
	pm.invoked = true
	s.Logf("resolver P%d %s begin", pm.id, kindName(pm.kind))
	switch pm.kind {
	case 0:
		pm.p.Fulfill(pm.result.ToPtr())
	case 1:
		pm.p.Reject(fmt.Errorf("rejected:%d", pm.id))
	case 2:
		pm.p.Join(pm.joinTo.p.Answer())
	}
	pm.returned = true
	pm.resolving = false
	s.Logf("resolver P%d %s returned", pm.id, kindName(pm.kind))
	if pm.inCaller > 0 {
		s.Fail("resolve_returned_during_delivery", "answer.go:(*Promise)."+kindName(pm.kind), fmt.Sprintf("%s on P%d returned while %d pipelined call(s) were still being delivered to its PipelineCaller", kindName(pm.kind), pm.id, pm.inCaller))
	}
}

func (Engine) Run(t *testing.T, tape *simrt.Tape, opt worker.Options) *worker.Outcome {
	r := &run{calls: map[int]*callRec{}, avoid: opt.Avoid}
	defer delete(asked, r)
	ntasks := 0
	body := func(s *simrt.Sched) {
		r.s = s
		if opt.Avoid["pending-resolution-call"] {
			r.guard = s.Chance("guard-on", 3, 4)
		}
		np := 1 + s.Choice("nproms", 3)
		for i := 0; i < np; i++ {
			pm := &promM{id: i}
			pm.p = capnp.NewPromise(capnp.Method{InterfaceID: 0xabc, MethodID: uint16(i)}, &simPC{r: r, pm: pm})
			r.proms = append(r.proms, pm)
		}
		for i, pm := range r.proms {
			k := s.Choice("kind", 4)
			switch {
			case k == 3 && i < np-1: // join onto a later promise
				pm.kind = 2
				pm.joinTo = r.proms[i+1+s.Choice("join-to", np-1-i)]
				s.Probe("join")
			case k == 2:
				pm.kind = 1
			default:
				pm.kind = 0
				r.buildResult(pm)
			}
		}
		for _, pm := range r.proms {
			if pm.kind == 2 && pm.joinTo.kind == 2 {
				s.Probe("join_chain_2")
			}
		}
		ntasks = 1 + s.Choice("ntasks", 3)
		for i := 0; i < ntasks; i++ {
			i := i
			nops := 2 + s.Choice("nops", 7)
			s.Spawn(fmt.Sprintf("w%d", i), func() { r.worker(i, nops) })
		}
		for _, pm := range r.proms {
			pm := pm
			s.Spawn(fmt.Sprintf("res%d", pm.id), func() { r.resolver(pm) })
		}
	}
	final := func(s *simrt.Sched) {
		// every promise gets ReleaseClients at least once
		for _, pm := range r.proms {
			if pm.rcCalls == 0 {
				r.releaseClients(-1, pm)
			}
			if s.Choice("rc-again", 3) == 0 {
				pm.p.ReleaseClients() // subsequent calls do nothing
			}
		}
		for _, cr := range r.calls {
			if !cr.done {
				s.Fail("call_not_completed", "answer.go:PipelineSend", fmt.Sprintf("call %d never completed", cr.id))
			}
		}
		// pipelined clients handed out before resolution must have been released by ReleaseClients
		for _, lc := range r.lent {
			if lc.wasPromise && lc.c.IsValid() {
				s.Fail("pipelined_client_not_released", "answer.go:(*Promise).ReleaseClients", fmt.Sprintf("pipelined client of P%d path %q is still valid after ReleaseClients ran on every promise", lc.pm.id, lc.path))
			}
		}
		// drop the result messages: their capability tables hold the last references
		r.final = true
		for _, pm := range r.proms {
			if pm.msg != nil {
				for _, c := range pm.msg.CapTable {
					c.Release()
				}
			}
		}
		for _, h := range r.hooks {
			if h.shutdown != 1 {
				s.Fail("shutdown_count", "answer.go:ReleaseClients", fmt.Sprintf("after ReleaseClients on every promise and dropping the results, result capability R%d has been shut down %d times (want 1): pipelined client references leaked or double-released", h.id, h.shutdown))
			}
		}
	}
	res := simrt.Run(t, simrt.Config{Tape: tape, MaxSteps: 8000, Trace: opt.Trace}, body, final)
	oc := &worker.Outcome{Res: res, Verdict: res.Verdict, Ops: r.ops, Probes: res.Probes, Faults: res.Faults}
	oc.NonTrivial = res.Switches > 0
	oc.Key = res.TraceHash
	oc.Sample = map[string]interface{}{"promises": len(r.proms), "tasks": ntasks, "calls": len(r.calls), "ops": r.ops, "steps": res.Steps, "switches": res.Switches, "kinds": kinds(r)}
	if oc.Verdict != nil {
		oc.Pattern = oc.Verdict.Oracle
		if len(res.StuckSites) > 0 {
			oc.Pattern = "stuck:" + strings.Join(res.StuckSites, "|")
		}
	}
	return oc
}

func kinds(r *run) string {
	var b strings.Builder
	for _, p := range r.proms {
		b.WriteString(kindName(p.kind)[:1])
	}
	return b.String()
}
