// Package streamsim simulates a writer node, a faulty byte pipe and a reader
// node for the packed codec (C13) and the stream framing (C14).
package streamsim

import (
	"bufio"
	"bytes"
	"encoding/binary"
	"fmt"
	"io"
	"runtime"
	"testing"

	capnp "capnproto.org/go/capnp/v3"
	packed "capnproto.org/go/capnp/v3/simpacked"
	"capnproto.org/go/capnp/v3/simrt"
	"verifh/ref/packedref"
	"verifh/ref/wire"
	"verifh/simio"
	"verifh/worker"
)

type Engine struct{}

func (Engine) Name() string { return "streamsim" }

type run struct {
	s     *simrt.Sched
	cases int
	cuts  int
	full  int // streams whose cut points were enumerated exhaustively
	desc  []string
	key   uint64
}

var specialLens = []int{0, 1, 2, 3, 254, 255, 256, 257, 509, 510, 511, 512}

func (r *run) runLen() int {
	s := r.s
	if s.Chance("special-len", 1, 6) {
		return specialLens[s.Choice("special", len(specialLens))]
	}
	return s.Choice("len", 6)
}

// genPayload builds a word-aligned payload from a pattern grammar.
func (r *run) genPayload() []byte {
	s := r.s
	var out []byte
	nruns := 1 + s.Choice("nruns", 5)
	for i := 0; i < nruns && len(out) < 8*1400; i++ {
		n := r.runLen()
		switch s.Choice("runkind", 4) {
		case 0: // zero words
			out = append(out, make([]byte, 8*n)...)
		case 1: // words with at most one zero byte (literal-run material)
			for j := 0; j < n; j++ {
				var w [8]byte
				for k := range w {
					w[k] = byte(1 + s.Choice("b", 255))
				}
				if s.Chance("onezero", 1, 3) {
					w[s.Choice("zpos", 8)] = 0
				}
				out = append(out, w[:]...)
			}
		case 2: // mixed words
			for j := 0; j < n; j++ {
				var w [8]byte
				mask := s.Choice("mask", 256)
				for k := range w {
					if mask&(1<<k) != 0 {
						w[k] = byte(1 + s.Choice("b", 255))
					}
				}
				out = append(out, w[:]...)
			}
		case 3: // same non-zero word repeated
			var w [8]byte
			for k := range w {
				w[k] = byte(1 + s.Choice("b", 255))
			}
			for j := 0; j < n; j++ {
				out = append(out, w[:]...)
			}
		}
	}
	return out
}

// genHostile builds an arbitrary packed byte string: tags followed by too few
// bytes, counts with nothing behind them, and so on.
func (r *run) genHostile() []byte {
	s := r.s
	var out []byte
	n := 1 + s.Choice("hitems", 6)
	for i := 0; i < n; i++ {
		switch s.Choice("hkind", 5) {
		case 0:
			out = append(out, 0x00, byte(s.Choice("zc", 256)))
		case 1:
			out = append(out, 0xff)
			for k := 0; k < 8; k++ {
				out = append(out, byte(s.Choice("b", 256)))
			}
			c := s.Choice("lc", 4)
			out = append(out, byte(c))
			have := s.Choice("have", 8*c+1)
			for k := 0; k < have; k++ {
				out = append(out, byte(s.Choice("b", 256)))
			}
		case 2:
			tag := byte(s.Choice("tag", 256))
			out = append(out, tag)
			for k := 0; k < 8; k++ {
				if tag&(1<<uint(k)) != 0 && !s.Chance("drop", 1, 12) {
					out = append(out, byte(s.Choice("b", 256)))
				}
			}
		case 3:
			out = append(out, byte(s.Choice("raw", 256)))
		case 4:
			out = append(out, 0xff)
		}
	}
	if s.Chance("chop", 1, 3) && len(out) > 0 {
		out = out[:s.Choice("chopat", len(out))]
	}
	return out
}

type chunker struct {
	mode int
	i    int
}

var chunkModes = []int{0, 1, 2, 7, 8, 9, 64}

func (c *chunker) next() int {
	c.i++
	if c.mode < len(chunkModes) {
		return chunkModes[c.mode]
	}
	return 1 + (c.i*7)%13
}

// streamUnpack reads everything from a packed.Reader over src with the given
// Read buffer size (0 = use ReadWord).  It returns the delivered bytes and the
// final error (io.EOF = clean end).
func streamUnpack(src []byte, chunkMode, bufioSize, readSize int, zero bool, errAt int) ([]byte, error) {
	rd := simio.NewReader(src)
	ck := &chunker{mode: chunkMode}
	rd.Chunk = ck.next
	rd.ErrAt = errAt
	if zero {
		k := 0
		rd.ZeroRead = func() bool { k++; return k%3 == 0 }
	}
	pr := packed.NewReader(bufio.NewReaderSize(rd, bufioSize))
	var out []byte
	if readSize == 0 {
		var w [8]byte
		for i := 0; i < 1<<22; i++ {
			if err := pr.ReadWord(w[:]); err != nil {
				return out, err
			}
			out = append(out, w[:]...)
		}
		return out, fmt.Errorf("streamUnpack: no end")
	}
	buf := make([]byte, readSize)
	for i := 0; i < 1<<22; i++ {
		n, err := pr.Read(buf)
		out = append(out, buf[:n]...)
		if err != nil {
			return out, err
		}
	}
	return out, fmt.Errorf("streamUnpack: no end")
}

func short(b []byte) string {
	if len(b) > 48 {
		return fmt.Sprintf("%x...(%d bytes)", b[:48], len(b))
	}
	return fmt.Sprintf("%x", b)
}

// checkInput applies the C13 oracle to one packed input.
func (r *run) checkInput(p []byte, x []byte, intact bool, chunkMode, bufioSize, readSize int, zero bool) bool {
	s := r.s
	r.cases++
	d := packedref.UnpackDetail(p)
	out1, err1 := packed.Unpack(nil, p)
	out2, err2 := streamUnpack(p, chunkMode, bufioSize, readSize, zero, -1)
	// Unpack appends to dst: a recycled buffer with old bytes beyond its length, and a non-empty
	// prefix, must give the same result as a fresh one
	if r.cases%3 == 0 {
		dirty := bytes.Repeat([]byte{0xa5}, d.MaxOut+24)
		prefix := r.cases % 17
		if prefix > len(dirty) {
			prefix = 0
		}
		out3, err3 := packed.Unpack(dirty[:prefix], p)
		if (err3 == nil) != (err1 == nil) || (err1 == nil && (len(out3) != prefix+len(out1) || !bytes.Equal(out3[prefix:], out1) || !bytes.Equal(out3[:prefix], bytes.Repeat([]byte{0xa5}, prefix)))) {
			s.Fail("unpack_mismatch", "packed.go:Unpack", fmt.Sprintf("Unpack into a recycled buffer (%d bytes kept, old bytes beyond) of %s = %s / %v, into a fresh one %s / %v", prefix, short(p), short(out3), err3, short(out1), err1))
			return false
		}
		s.Probe("unpack_into_recycled_buffer")
	}
	acceptable := d.Status == packedref.OK
	site1 := "packed.go:Unpack"
	site2 := "packed.go:(*Reader).ReadWord"
	if intact {
		if !acceptable || !bytes.Equal(d.Out, x) {
			s.Fail("pack_not_decodable", "packed.go:Pack", fmt.Sprintf("independent decoder does not recover the payload from Pack output: status=%v payload=%s packed=%s", d.Status, short(x), short(p)))
			return false
		}
	}
	if acceptable {
		if err1 != nil {
			s.Fail("unpack_mismatch", site1, fmt.Sprintf("one-shot Unpack rejects acceptable input %s: %v", short(p), err1))
			return false
		}
		if !bytes.Equal(out1, d.Out) {
			s.Fail("unpack_mismatch", site1, fmt.Sprintf("one-shot Unpack of %s = %s, want %s", short(p), short(out1), short(d.Out)))
			return false
		}
		if err2 != io.EOF {
			s.Fail("unpack_mismatch", site2, fmt.Sprintf("streaming reader fails on acceptable input %s (read size %d): %v", short(p), readSize, err2))
			return false
		}
		if !bytes.Equal(out2, d.Out) {
			s.Fail("unpack_mismatch", site2, fmt.Sprintf("streaming reader (read size %d, chunk mode %d, bufio %d) on %s delivers %s, want %s", readSize, chunkMode, bufioSize, short(p), short(out2), short(d.Out)))
			return false
		}
	} else {
		if err1 == nil {
			s.Fail("truncated_accepted", site1, fmt.Sprintf("one-shot Unpack accepts truncated input %s and returns %s (%d bytes; the input only determines %d)", short(p), short(out1), len(out1), len(d.Out)))
			return false
		}
		if err2 == io.EOF || err2 == nil {
			s.Fail("eof_not_at_boundary", site2, fmt.Sprintf("streaming reader reports a clean end of stream on truncated input %s (read size %d) after delivering %d bytes", short(p), readSize, len(out2)))
			return false
		}
		if len(out2) > len(d.Out) || !bytes.Equal(out2, d.Out[:len(out2)]) {
			s.Fail("invented_bytes", site2, fmt.Sprintf("streaming reader on truncated input %s delivered %s, which is not a prefix of what the input determines (%s)", short(p), short(out2), short(d.Out)))
			return false
		}
	}
	if len(out1) > d.MaxOut && err1 == nil {
		s.Fail("output_bound", site1, fmt.Sprintf("Unpack output %d bytes exceeds the spec bound %d for input %s", len(out1), d.MaxOut, short(p)))
		return false
	}
	if len(out2) > d.MaxOut {
		s.Fail("output_bound", site2, fmt.Sprintf("streaming output %d bytes exceeds the spec bound %d for input %s", len(out2), d.MaxOut, short(p)))
		return false
	}
	return true
}

func (r *run) c13() {
	s := r.s
	chunkMode := s.Choice("chunkmode", len(chunkModes)+1)
	bufioSize := []int{16, 17, 64, 4096}[s.Choice("bufio", 4)]
	readSizes := []int{0, 1, 3, 7, 8, 9, 16, 24, 64}
	readSize := readSizes[s.Choice("readsize", len(readSizes))]
	zero := s.Chance("zeroread", 1, 5)
	if zero {
		s.Fault("zero_read")
	}
	var p, x []byte
	intact := false
	switch s.Choice("c13mode", 4) {
	case 0, 1:
		x = r.genPayload()
		p = packed.Pack(nil, x)
		intact = true
		r.desc = append(r.desc, fmt.Sprintf("payload %d words -> %d packed bytes", len(x)/8, len(p)))
		if !bytes.Equal(p, packedref.Pack(x)) {
			s.Probe("pack_differs_from_reference_packer")
		}
	case 2:
		p = r.genHostile()
		r.desc = append(r.desc, fmt.Sprintf("hostile packed string %s", short(p)))
	case 3: // a real marshalled message
		v := wire.RandValue(func(n int) int { return s.Choice("rv", n) }, 2, false)
		segs := wire.Encode(v, wire.EncOpts{SegWords: []int{0, 4, 16}[s.Choice("segwords", 3)]})
		x = wire.BuildFrame(segs)
		p = packed.Pack(nil, x)
		intact = true
		r.desc = append(r.desc, fmt.Sprintf("framed message %d bytes -> %d packed", len(x), len(p)))
		msg, err := capnp.UnmarshalPacked(p)
		if err != nil {
			s.Fail("unpack_mismatch", "message.go:UnmarshalPacked", fmt.Sprintf("UnmarshalPacked fails on a valid packed message: %v", err))
			return
		}
		for i, sg := range segs {
			got, err := msg.Segment(capnp.SegmentID(i))
			if err != nil || !bytes.Equal(got.Data(), sg) {
				s.Fail("unpack_mismatch", "message.go:UnmarshalPacked", fmt.Sprintf("segment %d differs after UnmarshalPacked (err=%v)", i, err))
				return
			}
		}
	}
	r.key = simrt.Hash64(string(p), fmt.Sprint(chunkMode, bufioSize, readSize, zero))
	if !r.checkInput(p, x, intact, chunkMode, bufioSize, readSize, zero) {
		return
	}
	// every cut point of the stream (EOF at k); sampled beyond 512 bytes
	exhaustive := len(p) <= 512
	if exhaustive {
		r.full++
	}
	for k := 0; k < len(p); k++ {
		if !exhaustive && k > 64 && k < len(p)-64 && (k*2654435761)%17 != 0 {
			continue
		}
		r.cuts++
		s.Fault("eof_at")
		rs := readSize
		if k%3 == 1 {
			rs = readSizes[(k/3)%len(readSizes)]
		}
		if !r.checkInput(p[:k], nil, false, (chunkMode+k)%(len(chunkModes)+1), bufioSize, rs, zero && k%2 == 0) {
			return
		}
	}
	// read error at byte k: the stream must surface an error, and whatever was delivered must be right
	if len(p) > 0 {
		k := s.Choice("errat", len(p)+1)
		s.Fault("read_err")
		out, err := streamUnpack(p, chunkMode, bufioSize, readSize, zero, k)
		d := packedref.UnpackDetail(p)
		if err == nil || err == io.EOF {
			if k < len(p) {
				s.Fail("read_error_swallowed", "packed.go:(*Reader).ReadWord", fmt.Sprintf("underlying reader failed at byte %d of %d but the packed reader reported %v", k, len(p), err))
				return
			}
		}
		if len(out) > len(d.Out) || !bytes.Equal(out, d.Out[:len(out)]) {
			s.Fail("invented_bytes", "packed.go:(*Reader).ReadWord", fmt.Sprintf("after a read error at byte %d the packed reader had delivered %s, not a prefix of %s", k, short(out), short(d.Out)))
		}
	}
}

// ---------------------------------------------------------------- C14 framing

type frameMsg struct {
	segs [][]byte
}

func (r *run) genSegs() [][]byte {
	s := r.s
	n := 1 + s.Choice("nsegs", 6)
	segs := make([][]byte, n)
	for i := range segs {
		w := s.Choice("segwords", 7)
		if s.Chance("bigseg", 1, 10) {
			// (widened from 40: the upper values give runs around the packed encoding's 255-word
			// limits - words without a zero byte, or zero words up to the end of the segment)
			bw := s.Choice("bigwords", 52)
			if bw >= 40 {
				run := []int{255, 256, 257, 258, 300, 513}[(bw-40)%6]
				b := make([]byte, 8*(run+2))
				b[0] = 0x11
				if (bw-40)/6 == 0 {
					for j := 8; j < 8*(run+1); j++ {
						b[j] = byte(1 + (j*7+bw)%255)
					}
					b[len(b)-1] = 0x22
					s.Probe("segment_with_long_dense_run")
				} else {
					b = b[:8*(run+1)]
					s.Probe("segment_ending_in_long_zero_run")
				}
				segs[i] = b
				continue
			}
			w = 30 + bw
		}
		b := make([]byte, 8*w)
		for j := range b {
			b[j] = byte(s.Choice("sb", 4) * 85)
		}
		segs[i] = b
	}
	return segs
}

func msgSegs(m *capnp.Message) ([][]byte, error) {
	n := m.NumSegments()
	out := make([][]byte, n)
	for i := int64(0); i < n; i++ {
		sg, err := m.Segment(capnp.SegmentID(i))
		if err != nil {
			return nil, err
		}
		out[i] = append([]byte(nil), sg.Data()...)
	}
	return out, nil
}

func segsEqual(a, b [][]byte) bool {
	if len(a) != len(b) {
		return false
	}
	for i := range a {
		if !bytes.Equal(a[i], b[i]) {
			return false
		}
	}
	return true
}

// decodeAll decodes messages from stream until an error; it returns the
// segments of each message (copied before the next Decode) and the final error.
func decodeAll(stream []byte, isPacked, reuse bool, maxSize uint64, chunkMode int, errAt int) ([][][]byte, error) {
	rd := simio.NewReader(stream)
	ck := &chunker{mode: chunkMode}
	rd.Chunk = ck.next
	rd.ErrAt = errAt
	var d *capnp.Decoder
	if isPacked {
		d = capnp.NewPackedDecoder(rd)
	} else {
		d = capnp.NewDecoder(rd)
	}
	if reuse {
		d.ReuseBuffer()
	}
	d.MaxMessageSize = maxSize
	var out [][][]byte
	for i := 0; i < 64; i++ {
		m, err := d.Decode()
		if err != nil {
			return out, err
		}
		sg, err := msgSegs(m)
		if err != nil {
			return out, fmt.Errorf("segment access: %v", err)
		}
		out = append(out, sg)
	}
	return out, fmt.Errorf("decodeAll: no end")
}

func (r *run) c14() {
	s := r.s
	switch s.Choice("c14mode", 5) {
	case 4:
		r.c14Hostile()
		return
	}
	isPacked := s.Choice("packed", 2) == 1
	reuse := s.Choice("reuse", 2) == 1
	chunkMode := s.Choice("chunkmode", len(chunkModes)+1)
	nmsg := 1 + s.Choice("nmsgs", 5)
	var msgs []frameMsg
	w := &simio.Writer{}
	var enc *capnp.Encoder
	if isPacked {
		enc = capnp.NewPackedEncoder(w)
	} else {
		enc = capnp.NewEncoder(w)
	}
	var bounds []int
	var refStream []byte
	for i := 0; i < nmsg; i++ {
		segs := r.genSegs()
		msgs = append(msgs, frameMsg{segs: segs})
		cp := make([][]byte, len(segs))
		for j := range segs {
			cp[j] = append([]byte(nil), segs[j]...)
		}
		m := &capnp.Message{Arena: capnp.MultiSegment(cp)}
		if err := enc.Encode(m); err != nil {
			s.Fail("encode_failed", "message.go:(*Encoder).Encode", fmt.Sprintf("Encode of a %d-segment message failed: %v", len(segs), err))
			return
		}
		bounds = append(bounds, len(w.Buf))
		refStream = append(refStream, wire.BuildFrame(segs)...)
	}
	stream := w.Buf
	r.key = simrt.Hash64(string(stream), fmt.Sprint(isPacked, reuse, chunkMode))
	r.desc = append(r.desc, fmt.Sprintf("%d messages, %d stream bytes, packed=%v reuse=%v", nmsg, len(stream), isPacked, reuse))
	// the encoder's output is exactly the reference framing (unpacked), or unpacks to it
	if !isPacked {
		if !bytes.Equal(stream, refStream) {
			s.Fail("framing_mismatch", "message.go:(*Encoder).Encode", fmt.Sprintf("encoder output differs from the spec framing of the same segments: got %s want %s", short(stream), short(refStream)))
			return
		}
	} else {
		out, st := packedref.Unpack(stream)
		if st != packedref.OK || !bytes.Equal(out, refStream) {
			s.Fail("framing_mismatch", "message.go:(*Encoder).Encode", fmt.Sprintf("packed encoder output does not unpack (independent decoder) to the spec framing: status=%v", st))
			return
		}
	}
	var maxSize uint64
	switch s.Choice("maxsize", 3) {
	case 0:
		maxSize = 0
	case 1:
		maxSize = 1 << 20
	case 2: // just enough for the largest frame
		for _, fm := range msgs {
			if n := uint64(len(wire.BuildFrame(fm.segs))); n > maxSize {
				maxSize = n
			}
		}
		s.Probe("maxsize_exact_fit")
	}
	check := func(cut int, boundary bool, nfull int, errAt int) bool {
		r.cases++
		got, err := decodeAll(stream[:cut], isPacked, reuse, maxSize, (chunkMode+cut)%(len(chunkModes)+1), errAt)
		site := "message.go:(*Decoder).Decode"
		upper := nfull
		if isPacked {
			// A packed item whose count byte is missing still determines its tagged word, so the
			// bytes received may determine one more complete frame than the writer-side boundaries say.
			d := packedref.UnpackDetail(stream[:cut])
			ends, _ := wire.FrameBoundaries(d.Out)
			if len(ends) > upper {
				upper = len(ends)
				s.Probe("frame_determined_by_incomplete_packed_item")
			}
		}
		if len(got) > upper {
			s.Fail("message_from_torn_frame", site, fmt.Sprintf("stream of %d frames cut at byte %d (%d complete frames) yielded %d messages (packed=%v reuse=%v)", nmsg, cut, upper, len(got), isPacked, reuse))
			return false
		}
		for i := range got {
			if i >= len(msgs) || !segsEqual(got[i], msgs[i].segs) {
				s.Fail("readback_mismatch", site, fmt.Sprintf("message %d read from the stream differs from what was written (cut=%d packed=%v reuse=%v)", i, cut, isPacked, reuse))
				return false
			}
		}
		if errAt >= 0 {
			if err == io.EOF && errAt < cut {
				s.Fail("read_error_swallowed", site, fmt.Sprintf("reader failed at byte %d but Decode reported a clean end of stream", errAt))
				return false
			}
			return true
		}
		if len(got) < nfull {
			s.Fail("message_lost", site, fmt.Sprintf("stream cut at byte %d contains %d complete frames but only %d were decoded; error: %v (packed=%v reuse=%v)", cut, nfull, len(got), err, isPacked, reuse))
			return false
		}
		if boundary && err != io.EOF {
			s.Fail("eof_not_at_boundary", site, fmt.Sprintf("stream ends exactly at a frame boundary (byte %d) but Decode reported %v instead of io.EOF (packed=%v reuse=%v)", cut, err, isPacked, reuse))
			return false
		}
		if !boundary && (err == io.EOF || err == nil) {
			s.Fail("eof_not_at_boundary", site, fmt.Sprintf("stream cut at byte %d, inside frame %d, but Decode reported a clean end of stream (packed=%v reuse=%v)", cut, nfull, isPacked, reuse))
			return false
		}
		return true
	}
	if !check(len(stream), true, nmsg, -1) {
		return
	}
	exhaustive := len(stream) <= 1024
	if exhaustive {
		r.full++
	}
	for k := 0; k < len(stream); k++ {
		if !exhaustive && k > 128 && k < len(stream)-128 && (k*2654435761)%23 != 0 {
			continue
		}
		nfull := 0
		boundary := k == 0
		for _, b := range bounds {
			if b <= k {
				nfull++
			}
			if b == k {
				boundary = true
			}
		}
		r.cuts++
		s.Fault("eof_at")
		if !check(k, boundary, nfull, -1) {
			return
		}
	}
	if len(stream) > 0 {
		k := s.Choice("errat", len(stream))
		s.Fault("read_err")
		nfull := 0
		for _, b := range bounds {
			if b <= k {
				nfull++
			}
		}
		check(len(stream), false, nfull, k)
	}
	if !s.Failed() {
		r.c14Limit(msgs, reuse)
	}
}

// c14Limit: MaxMessageSize is "the maximum number of bytes that can be read per
// call to Decode".  For every frame of the stream and limits around its exact
// size (header included): a frame that fits decodes to what was written, a frame
// that does not fit is refused, and in both cases a single Decode consumes no
// more than the limit from the reader.
func (r *run) c14Limit(msgs []frameMsg, reuse bool) {
	s := r.s
	for i, fm := range msgs {
		frame := wire.BuildFrame(fm.segs)
		F := len(frame)
		// (the last three are limits smaller than a segment table: 1, 4 and 7 bytes, which no frame fits)
		for _, d := range []int{-24, -16, -8, 0, 8, 1 - F, 4 - F, 7 - F} {
			lim := F + d
			if lim < 8 && d > -F {
				s.Probe("maxsize_below_one_word")
			} else if lim < 8 {
				continue
			}
			r.cases++
			s.Probe("maxsize_boundary_case")
			// the frame is followed by another copy, so that reading too much is possible
			rd := simio.NewReader(append(append([]byte(nil), frame...), frame...))
			dec := capnp.NewDecoder(rd)
			dec.MaxMessageSize = uint64(lim)
			if reuse {
				dec.ReuseBuffer()
			}
			m, err := dec.Decode()
			if rd.Pos > lim {
				s.Fail("limit_exceeded", "message.go:(*Decoder).Decode", fmt.Sprintf("Decode with MaxMessageSize=%d read %d bytes from the stream for a frame of %d bytes (%d segments, reuse=%v, err=%v)", lim, rd.Pos, F, len(fm.segs), reuse, err))
				return
			}
			switch {
			case d < 0 && err == nil:
				s.Fail("limit_exceeded", "message.go:(*Decoder).Decode", fmt.Sprintf("Decode with MaxMessageSize=%d accepted a frame of %d bytes (%d segments, header %d bytes, reuse=%v)", lim, F, len(fm.segs), F-bodyLen(fm.segs), reuse))
				return
			case d >= 0 && err != nil:
				s.Fail("message_lost", "message.go:(*Decoder).Decode", fmt.Sprintf("Decode with MaxMessageSize=%d refused frame %d of %d bytes (%d segments, reuse=%v): %v", lim, i, F, len(fm.segs), reuse, err))
				return
			case d >= 0:
				got, gerr := msgSegs(m)
				if gerr != nil || !segsEqual(got, fm.segs) {
					s.Fail("readback_mismatch", "message.go:(*Decoder).Decode", fmt.Sprintf("frame %d decoded with MaxMessageSize=%d differs from what was written (err=%v)", i, lim, gerr))
					return
				}
			}
		}
	}
}

func bodyLen(segs [][]byte) int {
	n := 0
	for _, sg := range segs {
		n += len(sg)
	}
	return n
}

func totalAlloc() uint64 {
	var ms runtime.MemStats
	runtime.ReadMemStats(&ms)
	return ms.TotalAlloc
}

// c14Hostile splices hostile header words into a stream and bounds the
// allocation of Decode / Unmarshal.
func (r *run) c14Hostile() {
	s := r.s
	counts := []uint32{0, 1, 2, 511, 512, 513, 1 << 16, 1 << 20, 1 << 24, 1<<31 - 1, 1 << 31, 1<<32 - 1}
	sizes := []uint32{0, 1, 1 << 10, 1 << 20, 1<<23 - 1, 1 << 23, 1 << 26, 1<<29 - 1, 1 << 29, 1<<32 - 1}
	cnt := counts[s.Choice("hcount", len(counts))]
	var hdr []byte
	hdr = binary.LittleEndian.AppendUint32(hdr, cnt)
	nsz := int(cnt) + 1
	if cnt > 40 {
		nsz = 3 + s.Choice("nsz", 40)
	}
	for i := 0; i < nsz; i++ {
		hdr = binary.LittleEndian.AppendUint32(hdr, sizes[s.Choice("hsize", len(sizes))])
	}
	for len(hdr)%8 != 0 {
		hdr = append(hdr, 0, 0, 0, 0)
	}
	tail := make([]byte, 8*s.Choice("tailwords", 8))
	stream := append(append([]byte(nil), hdr...), tail...)
	maxSizes := []uint64{64, 1024, 1 << 20, 1 << 40, 1, 7}
	maxSize := maxSizes[s.Choice("hmax", len(maxSizes))]
	reuse := s.Choice("reuse", 2) == 1
	r.desc = append(r.desc, fmt.Sprintf("hostile header count-1=%d, %d size words, MaxMessageSize=%d", cnt, nsz, maxSize))
	r.cases++
	r.key = simrt.Hash64(string(stream), fmt.Sprint(maxSize, reuse))
	s.Fault("hdr_tamper")
	const slack = 64 << 10
	// what the property allows a single Decode to allocate
	bound := maxSize + slack
	if cnt >= 1<<16 {
		// far above any sane segment-count limit: must be rejected before allocating for it
		bound = slack
		s.Probe("segment_count_above_any_limit")
	}
	if maxSize == 1<<40 && bound > slack {
		// nothing in the 8..330 byte stream can justify more than the stream itself would need
		var declared uint64
		for i := 0; i < nsz && i <= int(cnt); i++ {
			declared += 8 * uint64(binary.LittleEndian.Uint32(hdr[4+4*i:]))
		}
		if declared > 256<<20 {
			// a frame of more than 2 GiB: too expensive to let the decoder try; covered by smaller MaxMessageSize values
			return
		}
		bound = declared + uint64(len(hdr)) + slack
	}
	rd := simio.NewReader(stream)
	d := capnp.NewDecoder(rd)
	d.MaxMessageSize = maxSize
	if reuse {
		d.ReuseBuffer()
	}
	runtime.GC()
	before := totalAlloc()
	m, err := d.Decode()
	delta := totalAlloc() - before
	if delta > bound {
		s.Fail("alloc_bound", "message.go:(*Decoder).Decode", fmt.Sprintf("Decode with MaxMessageSize=%d allocated %d bytes for header count-1=%d (%d size words): bound %d (err=%v)", maxSize, delta, cnt, nsz, bound, err))
		return
	}
	if err == nil && m != nil {
		// accepted: then the frame must really be complete in the stream
		if _, _, perr := wire.ParseFrame(stream); perr != nil {
			s.Fail("message_from_torn_frame", "message.go:(*Decoder).Decode", fmt.Sprintf("Decode accepted a frame the reference parser rejects (%v): header %s", perr, short(hdr)))
			return
		}
	}
	// Unmarshal of the same bytes: allocation proportional to the input only
	before = totalAlloc()
	_, uerr := capnp.Unmarshal(stream)
	delta = totalAlloc() - before
	if lim := uint64(8*len(stream)) + slack; delta > lim {
		s.Fail("alloc_bound", "message.go:Unmarshal", fmt.Sprintf("Unmarshal of %d bytes allocated %d bytes (bound %d) for header count-1=%d (err=%v)", len(stream), delta, lim, cnt, uerr))
		return
	}
	if uerr == nil {
		if _, _, perr := wire.ParseFrame(stream); perr != nil {
			s.Fail("message_from_torn_frame", "message.go:Unmarshal", fmt.Sprintf("Unmarshal accepted bytes the reference frame parser rejects (%v): header %s", perr, short(hdr)))
		}
	}
}

func (Engine) Run(t *testing.T, tape *simrt.Tape, opt worker.Options) *worker.Outcome {
	r := &run{}
	body := func(s *simrt.Sched) {
		r.s = s
		if opt.Property == "C14" {
			r.c14()
		} else {
			r.c13()
		}
	}
	res := simrt.RunInline(simrt.Config{Tape: tape, Trace: opt.Trace}, body)
	oc := &worker.Outcome{Res: res, Verdict: res.Verdict, Ops: r.cases, Probes: res.Probes, Faults: res.Faults}
	oc.NonTrivial = r.cuts > 0 || len(res.Faults) > 0
	oc.Key = r.key
	oc.Sample = map[string]interface{}{"stream": r.desc, "cases": r.cases, "cut_points": r.cuts, "exhaustive_cut_enumeration": r.full > 0}
	if res.Probes == nil {
		oc.Probes = map[string]int{}
	}
	oc.Probes["cut_points_checked"] += r.cuts
	oc.Probes["streams_fully_enumerated"] += r.full
	oc.Probes["cases"] += r.cases
	if oc.Verdict != nil {
		oc.Pattern = oc.Verdict.Oracle
	}
	return oc
}
