package readsim

import (
	"encoding/binary"
	"fmt"
	"testing"
	"time"

	"github.com/anishathalye/porcupine"

	capnp "capnproto.org/go/capnp/v3"
	"capnproto.org/go/capnp/v3/simrt"
	"verifh/worker"
)

// C02: hand-assembled messages whose pointer graphs are cyclic or aliasing.

type okind int

const (
	oStruct okind = iota
	oPtrList
	oCompList
	oFlatList // leaf: a list without pointers (void, bit, byte or 8-byte elements), e.g. Data or Text
)

type obj struct {
	id     int
	kind   okind
	dw, np int // struct: data words, pointers; composite: per element
	n      int // list length
	addr   int // word address of the first content word (composite: first element)
	lie    int // composite: 1 = the list pointer declares 0 words, 2 = half of what the tag implies
	esz    int // flat list: element size code of the list pointer (0 void, 1 bit, 2 byte, 5 eight bytes)
	slots  []*obj
}

func (o *obj) words() int {
	switch o.kind {
	case oStruct:
		return o.dw + o.np
	case oPtrList:
		return o.n
	case oFlatList:
		return int(o.flatBytes()+7) / 8
	default:
		return 1 + o.n*(o.dw+o.np)
	}
}

// flatBytes is the number of content bytes of a flat list.
func (o *obj) flatBytes() uint64 {
	switch o.esz {
	case 0:
		return 0
	case 1:
		return uint64(o.n+7) / 8
	case 2:
		return uint64(o.n)
	default:
		return 8 * uint64(o.n)
	}
}

// trueSize is the spec-level size of the object handed out by a dereference
// (a zero-sized list element counts as one word).
func (o *obj) trueSize() uint64 {
	switch o.kind {
	case oStruct:
		return uint64(8 * (o.dw + o.np))
	case oPtrList:
		return uint64(8 * o.n)
	case oFlatList:
		if o.esz == 0 {
			return uint64(8 * o.n) // zero-sized elements count as one word each
		}
		return o.flatBytes()
	default:
		e := o.dw + o.np
		if e == 0 {
			e = 1
		}
		return uint64(8 * o.n * e)
	}
}

func (o *obj) nslots() int {
	switch o.kind {
	case oStruct:
		return o.np
	case oPtrList:
		return o.n
	case oFlatList:
		return 0
	default:
		return o.n * o.np
	}
}

// slotAddr returns the word address of pointer slot k.
func (o *obj) slotAddr(k int) int {
	switch o.kind {
	case oStruct:
		return o.addr + o.dw + k
	case oPtrList:
		return o.addr + k
	default:
		if o.np == 0 {
			return o.addr
		}
		e, i := k/o.np, k%o.np
		return o.addr + e*(o.dw+o.np) + o.dw + i
	}
}

func ptrWord(from int, t *obj) uint64 {
	switch t.kind {
	case oStruct:
		off := int32(t.addr - from - 1)
		return uint64(uint32(off)<<2) | uint64(t.dw)<<32 | uint64(t.np)<<48
	case oPtrList:
		off := int32(t.addr - from - 1)
		return uint64(uint32(off)<<2) | 1 | 6<<32 | uint64(t.n)<<35
	case oFlatList:
		off := int32(t.addr - from - 1)
		return uint64(uint32(off)<<2) | 1 | uint64(t.esz)<<32 | uint64(t.n)<<35
	default:
		tag := t.addr - 1
		off := int32(tag - from - 1)
		wc := t.n * (t.dw + t.np)
		switch t.lie { // an inconsistent encoding: the tag word still announces n elements inside the segment
		case 1:
			wc = 0
		case 2:
			wc /= 2
		}
		return uint64(uint32(off)<<2) | 1 | 7<<32 | uint64(wc)<<35
	}
}

type graph struct {
	objs  []*obj
	seg   []byte
	chain bool
}

// buildGraph assembles a single-segment message: word 0 is the root pointer to objs[0].
func (r *run) buildGraph(chain bool) *graph {
	s := r.s
	g := &graph{chain: chain}
	n := 2 + s.Choice("nobjs", 4)
	for i := 0; i < n; i++ {
		o := &obj{id: i}
		// okind 4, 5: a composite list whose pointer understates the word count (the tag decides
		// what is handed out, so the tag decides what is charged)
		// okind 6, 7: a leaf list without pointers (Data, Text, primitive, bit or void list)
		k := s.Choice("okind", 8)
		lie := 0
		flat := k >= 6
		if flat {
			k = 3
		} else if k >= 4 {
			lie, k = k-3, 2
			s.Probe("composite_list_pointer_understates_size")
		}
		if i == 0 || (chain && k == 3) {
			k = 0 // the root must be a struct; a chain has no leaves
			lie = 0
			flat = false
		}
		switch k {
		case 0:
			o.kind, o.dw, o.np = oStruct, s.Choice("dw", 3), 1+s.Choice("np", 2)
		case 1:
			o.kind, o.n = oPtrList, 1+s.Choice("pn", 3)
		case 2:
			o.kind, o.n, o.dw, o.np = oCompList, 1+s.Choice("cn", 3), s.Choice("cdw", 2), 1+s.Choice("cnp", 2)
			o.lie = lie
		case 3: // list of zero-sized structs: every element must still be charged one word
			if flat {
				o.kind, o.esz = oFlatList, []int{0, 1, 2, 5}[s.Choice("flat-esz", 4)]
				o.n = []int{1, 8, 100, 1000, 5000}[s.Choice("flat-n", 5)]
				s.Probe("pointer_free_list_object")
			} else {
				o.kind, o.n = oCompList, []int{1, 2, 5, 100, 1000}[s.Choice("zn", 5)]
				s.Probe("zero_sized_element_list")
			}
		}
		if chain {
			switch o.kind {
			case oStruct:
				o.np = 1
			case oPtrList:
				o.n = 1
			case oCompList:
				o.n, o.np = 1, 1
			}
		}
		g.objs = append(g.objs, o)
	}
	at := 1
	for _, o := range g.objs {
		if o.kind == oCompList {
			o.addr = at + 1
		} else {
			o.addr = at
		}
		at += o.words()
	}
	g.seg = make([]byte, 8*at)
	put := func(w int, v uint64) { binary.LittleEndian.PutUint64(g.seg[8*w:], v) }
	put(0, ptrWord(0, g.objs[0]))
	for i, o := range g.objs {
		if o.kind == oCompList {
			put(o.addr-1, uint64(uint32(o.n)<<2)|uint64(o.dw)<<32|uint64(o.np)<<48)
		}
		o.slots = make([]*obj, o.nslots())
		for k := range o.slots {
			var t *obj
			if chain {
				if k == 0 {
					t = g.objs[(i+1)%n] // one outgoing pointer: a cycle through every object
				}
			} else if s.Choice("wire", 5) != 0 {
				t = g.objs[s.Choice("target", n)] // ancestors, siblings, itself: cycles and DAG blow-ups
			}
			o.slots[k] = t
			if t != nil {
				put(o.slotAddr(k), ptrWord(o.slotAddr(k), t))
			}
		}
	}
	return g
}

// handle is a live API handle on an object of the graph.
type handle struct {
	o  *obj
	st capnp.Struct
	l  capnp.List
	// depth = number of successful pointer dereferences on the path from the root (root pointer = 1)
	depth int
}

// deref follows pointer slot k of h through the public API.
func deref(h handle, k int) (handle, bool, error) {
	t := h.o.slots[k]
	var p capnp.Ptr
	var err error
	switch h.o.kind {
	case oStruct:
		p, err = h.st.Ptr(uint16(k))
	case oPtrList:
		p, err = capnp.PointerList{List: h.l}.At(k)
	default:
		e, i := k/h.o.np, k%h.o.np
		p, err = h.l.Struct(e).Ptr(uint16(i))
	}
	if err != nil {
		return handle{}, false, err
	}
	if t == nil {
		return handle{}, false, nil
	}
	nh := handle{o: t, depth: h.depth + 1}
	if t.kind == oStruct {
		nh.st = p.Struct()
		if !nh.st.IsValid() && t.dw+t.np > 0 {
			return handle{}, false, fmt.Errorf("pointer to struct object %d read as a non-struct", t.id)
		}
	} else {
		nh.l = p.List()
		if !nh.l.IsValid() {
			return handle{}, false, fmt.Errorf("pointer to list object %d read as a non-list", t.id)
		}
	}
	return nh, true, nil
}

type derefIn struct {
	cost   uint64
	read   bool
	unread uint64 // Message.Unread(unread): budget given back
}
type derefOut struct {
	ok   bool
	left uint64
}

func (r *run) runC02(t *testing.T, tape *simrt.Tape, opt worker.Options) *simrt.Result {
	mode := tape.Choice("c02-mode", 3)
	if mode == 2 {
		return simrt.RunInline(simrt.Config{Tape: tape, Trace: opt.Trace}, func(s *simrt.Sched) {
			r.s = s
			r.c02Consumers()
		})
	}
	return simrt.Run(t, simrt.Config{Tape: tape, MaxSteps: 100000, Trace: opt.Trace}, func(s *simrt.Sched) {
		r.s = s
		r.c02Walk()
	}, nil)
}

func limitOf(T uint64) uint64 {
	if T == 0 {
		return 64 << 20
	}
	return T
}

// c02Walk: K concurrent readers dereference along tape-chosen paths; budget
// (spec level and linearizable against the calibrated costs) and depth are checked.
func (r *run) c02Walk() {
	s := r.s
	g := r.buildGraph(s.Choice("chain", 3) == 0)
	r.segs = [][]byte{exact(g.seg)}
	r.key = simrt.Hash64(string(g.seg))
	depths := []uint{1, 2, 3, 4, 5, 6, 7, 8, 63, 64, 65}
	D := depths[s.Choice("D", len(depths))]
	var total uint64
	for _, o := range g.objs {
		total += o.trueSize()
	}
	Ts := []uint64{8, 16, 24, 40, 64, 96, 128, 256, total, total * 2, 1 << 20}
	T := Ts[s.Choice("T", len(Ts))]
	msg := &capnp.Message{Arena: capnp.SingleSegment(r.segs[0]), TraverseLimit: T, DepthLimit: D}
	r.desc = append(r.desc, fmt.Sprintf("graph of %d objects (chain=%v), T=%d, D=%d", len(g.objs), g.chain, T, D))

	// sequential prelude: calibrate what a dereference of each object is charged
	cost := map[int]uint64{}
	const big = 1 << 40
	var calibrate func(h handle, seen map[int]bool)
	calibrate = func(h handle, seen map[int]bool) {
		if seen[h.o.id] || s.Failed() {
			return
		}
		seen[h.o.id] = true
		for k := range h.o.slots {
			t := h.o.slots[k]
			if t == nil {
				continue
			}
			msg.ResetReadLimit(big)
			nh, ok, err := deref(h, k)
			if err != nil || !ok {
				continue // depth limit or another legitimate refusal: calibrated elsewhere if reachable
			}
			c := big - msg.SimReadLimit()
			if old, dup := cost[t.id]; dup && old != c {
				s.Fail("budget_exceeded", "message.go:(*Message).canRead", fmt.Sprintf("the same object %d was charged %d and %d bytes on two dereferences", t.id, old, c))
				return
			}
			cost[t.id] = c
			if c < t.trueSize() {
				s.Fail("budget_exceeded", "message.go:(*Message).canRead", fmt.Sprintf("dereferencing object %d (kind %d, %d bytes handed out) was charged only %d bytes of the traversal limit", t.id, t.kind, t.trueSize(), c))
				return
			}
			calibrate(nh, seen)
		}
	}
	calMsgDepth := msg.DepthLimit
	msg.DepthLimit = 64
	msg.ResetReadLimit(big)
	rootP, err := msg.Root()
	if err != nil {
		s.Fail("infra", "readsim", "hand-assembled message unreadable: "+err.Error())
		return
	}
	cost[0] = big - msg.SimReadLimit()
	if cost[0] < g.objs[0].trueSize() {
		s.Fail("budget_exceeded", "message.go:(*Message).canRead", fmt.Sprintf("the root struct (%d bytes) was charged only %d bytes", g.objs[0].trueSize(), cost[0]))
		return
	}
	calibrate(handle{o: g.objs[0], st: rootP.Struct(), depth: 1}, map[int]bool{})
	if s.Failed() {
		return
	}
	msg.DepthLimit = calMsgDepth

	// concurrent phase
	msg.ResetReadLimit(limitOf(T))
	var handed uint64 // sum of true sizes of objects successfully handed out
	var hist []porcupine.Operation
	// (the draw was widened from 4 to 8: the upper half adds a task that gives budget back with
	// Message.Unread while the readers run; earlier tapes keep their meaning)
	kd := s.Choice("K", 8)
	K := 1 + kd%4
	tasks := K
	var givenBack uint64
	done := 0
	limitErrs := 0
	if kd >= 4 {
		tasks++
		s.Spawn("unreader", func() {
			defer func() { done++ }()
			n := 1 + s.Choice("nunread", 4)
			for i := 0; i < n && !s.Failed(); i++ {
				sz := []uint64{8, 16, 64}[s.Choice("unread-size", 3)]
				givenBack += sz // counted before the call: what it gives back may be handed out at once
				call := int64(s.Seq())
				msg.Unread(capnp.Size(sz))
				ret := int64(s.Seq())
				hist = append(hist, porcupine.Operation{ClientId: K + 1, Input: derefIn{unread: sz}, Call: call, Output: derefOut{ok: true}, Return: ret})
				s.Probe("budget_given_back_while_reading")
			}
		})
	}
	for k := 0; k < K; k++ {
		k := k
		s.Spawn(fmt.Sprintf("reader%d", k), func() {
			defer func() { done++ }()
			nops := 2 + s.Choice("nderefs", 8)
			var h handle
			have := false
			for i := 0; i < nops && !s.Failed(); i++ {
				if !have {
					call := int64(s.Seq())
					p, err := msg.Root()
					ret := int64(s.Seq())
					ok := err == nil && p.Struct().IsValid()
					hist = append(hist, porcupine.Operation{ClientId: k, Input: derefIn{cost: cost[0]}, Call: call, Output: derefOut{ok: ok}, Return: ret})
					if !ok {
						limitErrs++
						continue
					}
					handed += g.objs[0].trueSize()
					if handed > limitOf(T)+givenBack {
						s.Fail("budget_exceeded", "message.go:(*Message).canRead", fmt.Sprintf("objects totalling %d bytes were handed out under a traversal limit of %d (+%d given back with Unread)", handed, limitOf(T), givenBack))
						return
					}
					h, have = handle{o: g.objs[0], st: p.Struct(), depth: 1}, true
					continue
				}
				if len(h.o.slots) == 0 {
					have = false
					continue
				}
				slot := s.Choice("slot", len(h.o.slots))
				t := h.o.slots[slot]
				if t == nil {
					have = s.Choice("restart", 2) == 0
					continue
				}
				c, known := cost[t.id]
				call := int64(s.Seq())
				nh, ok, err := deref(h, slot)
				ret := int64(s.Seq())
				if err != nil && !isLimitErr(err) {
					s.Fail("infra", "readsim", fmt.Sprintf("unexpected error on a well-formed pointer: %v", err))
					return
				}
				if err != nil && isDepthErr(err) {
					s.Probe("depth_limit_hit")
					have = false
					continue // no budget interaction
				}
				if known {
					hist = append(hist, porcupine.Operation{ClientId: k, Input: derefIn{cost: c}, Call: call, Output: derefOut{ok: ok}, Return: ret})
				}
				if !ok {
					limitErrs++
					s.Probe("budget_exhausted_midwalk")
					have = false
					continue
				}
				handed += t.trueSize()
				if handed > limitOf(T)+givenBack {
					s.Fail("budget_exceeded", "message.go:(*Message).canRead", fmt.Sprintf("objects totalling %d bytes were handed out under a traversal limit of %d (+%d given back with Unread)", handed, limitOf(T), givenBack))
					return
				}
				if uint(nh.depth) > D+1 {
					s.Fail("depth_exceeded", "segment.go:(*Segment).readPtr", fmt.Sprintf("a pointer %d dereferences below the root was read successfully with DepthLimit=%d (path ends at object %d kind %d)", nh.depth, D, t.id, t.kind))
					return
				}
				if nh.depth >= int(D) {
					s.Probe("walk_reached_depth_limit")
				}
				h = nh
			}
		})
	}
	s.Block("readers-done", func() bool { return done == tasks })
	if s.Failed() {
		return
	}
	left := msg.SimReadLimit()
	hist = append(hist, porcupine.Operation{ClientId: K, Input: derefIn{read: true}, Call: int64(s.Seq()), Output: derefOut{left: left}, Return: int64(s.Seq())})
	init := limitOf(T)
	nm := porcupine.NondeterministicModel{
		Init: func() []interface{} { return []interface{}{init} },
		Step: func(state, input, output interface{}) []interface{} {
			rem := state.(uint64)
			in := input.(derefIn)
			out := output.(derefOut)
			if in.unread != 0 {
				return []interface{}{rem + in.unread}
			}
			if in.read {
				if rem == out.left {
					return []interface{}{rem}
				}
				return nil
			}
			if out.ok {
				if rem >= in.cost {
					return []interface{}{rem - in.cost}
				}
				return nil
			}
			if rem < in.cost {
				return []interface{}{rem, uint64(0)}
			}
			return nil
		},
		Equal: func(a, b interface{}) bool { return a.(uint64) == b.(uint64) },
	}
	res := porcupine.CheckOperationsTimeout(nm.ToModel(), hist, 20*time.Second)
	switch res {
	case porcupine.Illegal:
		s.Fail("budget_not_linearizable", "message.go:(*Message).canRead", fmt.Sprintf("the history of %d dereferences by %d readers (budget %d, %d refused, %d left at the end) is not linearizable against the sequential budget: an update of the read limit was lost or invented.\nhistory: %s", len(hist)-1, K, init, limitErrs, left, histString(hist)))
	case porcupine.Unknown:
		s.Probe("porcupine_timeout")
	default:
		s.Probe("history_linearizable")
	}
}

func histString(h []porcupine.Operation) string {
	out := ""
	for _, o := range h {
		in := o.Input.(derefIn)
		ou := o.Output.(derefOut)
		if in.read {
			out += fmt.Sprintf(" [%d..%d final=%d]", o.Call, o.Return, ou.left)
		} else if in.unread != 0 {
			out += fmt.Sprintf(" [c%d %d..%d unread=%d]", o.ClientId, o.Call, o.Return, in.unread)
		} else {
			out += fmt.Sprintf(" [c%d %d..%d cost=%d ok=%v]", o.ClientId, o.Call, o.Return, in.cost, ou.ok)
		}
	}
	return out
}

func isLimitErr(err error) bool {
	return err != nil && (contains(err.Error(), "traversal limit") || contains(err.Error(), "depth limit"))
}
func isDepthErr(err error) bool { return err != nil && contains(err.Error(), "depth limit") }
func contains(s, sub string) bool {
	for i := 0; i+len(sub) <= len(s); i++ {
		if s[i:i+len(sub)] == sub {
			return true
		}
	}
	return false
}

// c02Consumers: recursive consumers on a chain-shaped cyclic message use work
// bounded by D, not only by T.
func (r *run) c02Consumers() {
	s := r.s
	g := r.buildGraph(true)
	r.segs = [][]byte{exact(g.seg)}
	r.key = simrt.Hash64(string(g.seg)) ^ 0x5151
	depths := []uint{2, 3, 4, 5, 6, 7, 8, 16, 31, 32, 63, 64}
	D := depths[s.Choice("D", len(depths))]
	var largest uint64 = 8
	for _, o := range g.objs {
		if o.trueSize() > largest {
			largest = o.trueSize()
		}
	}
	T := 64 * uint64(D) * largest
	msg := &capnp.Message{Arena: capnp.SingleSegment(r.segs[0]), TraverseLimit: T, DepthLimit: D}
	root, err := msg.Root()
	if err != nil {
		s.Fail("infra", "readsim", "hand-assembled chain unreadable: "+err.Error())
		return
	}
	r.desc = append(r.desc, fmt.Sprintf("cyclic chain of %d objects, D=%d, T=%d", len(g.objs), D, T))
	msg.ResetReadLimit(T)
	var what string
	switch s.Choice("chain-consumer", 4) {
	case 0:
		what = "deep copy (Message.SetRoot)"
		if m2, _, err := capnp.NewMessage(capnp.SingleSegment(nil)); err == nil {
			_ = m2.SetRoot(root)
		}
	case 1:
		what = "Canonicalize"
		_, _ = capnp.Canonicalize(root.Struct())
	case 2:
		what = "Equal"
		_, _ = capnp.Equal(root, root)
	case 3:
		what = "Struct.CopyFrom"
		if _, seg, err := capnp.NewMessage(capnp.MultiSegment(nil)); err == nil {
			if st, err := capnp.NewRootStruct(seg, capnp.ObjectSize{DataSize: 8, PointerCount: 1}); err == nil {
				_ = st.CopyFrom(root.Struct())
			}
		}
	}
	used := T - msg.SimReadLimit()
	s.Probe("chain_consumer_ran")
	if used > 8*uint64(D)*largest {
		s.Fail("depth_exceeded", "segment.go:(*Segment).readPtr", fmt.Sprintf("%s on a cyclic chain consumed %d bytes of traversal budget with DepthLimit=%d and largest object %d bytes: the recursion is bounded only by the traversal limit (%d), not by the depth limit", what, used, D, largest, T))
	}
}
