// Package readsim simulates writer node -> faulty storage/link -> reader node
// with K reader tasks (properties C01 and C02).
package readsim

import (
	"context"
	"encoding/binary"
	"errors"
	"fmt"
	"strings"
	"testing"
	"unsafe"

	capnp "capnproto.org/go/capnp/v3"
	"capnproto.org/go/capnp/v3/encoding/text"
	"capnproto.org/go/capnp/v3/pogs"
	air "capnproto.org/go/capnp/v3/simaircraft"
	"capnproto.org/go/capnp/v3/simrt"
	"verifh/ref/packedref"
	"verifh/ref/wire"
	"verifh/simio"
	"verifh/worker"
)

type Engine struct{}

func (Engine) Name() string { return "readsim" }

// Process-wide lazily initialised state (the schema registry decompresses a
// schema on first use, under a Once) would make the first run of a process
// take extra schedule points that a replay in a fresh process does not see at
// the same place.  Warm it up outside any simulated run.
func init() {
	for _, id := range []uint64{air.Regression_TypeID, air.Bag_TypeID, air.Z_TypeID} {
		_, seg, err := capnp.NewMessage(capnp.SingleSegment(nil))
		if err != nil {
			panic(err)
		}
		st, err := capnp.NewRootStruct(seg, capnp.ObjectSize{DataSize: 24, PointerCount: 4})
		if err != nil {
			panic(err)
		}
		if _, err := text.Marshal(id, st); err != nil {
			panic("readsim warm-up: " + err.Error())
		}
	}
	_, seg, _ := capnp.NewMessage(capnp.SingleSegment(nil))
	bg, _ := air.NewRootBag(seg)
	var v bag
	if err := pogs.Extract(&v, air.Bag_TypeID, bg.Struct); err != nil {
		panic("readsim warm-up: " + err.Error())
	}
	_, seg, _ = capnp.NewMessage(capnp.SingleSegment(nil))
	rg, _ := air.NewRootRegression(seg)
	var w regression
	if err := pogs.Extract(&w, air.Regression_TypeID, rg.Struct); err != nil {
		panic("readsim warm-up: " + err.Error())
	}
}

type run struct {
	s       *simrt.Sched
	prop    string
	segs    [][]byte // the bytes supplied to the reader (cap == len)
	extra   [][]byte // further buffers results may legitimately alias (frames)
	calls   int
	budget  int
	desc    []string
	key     uint64
	typed   bool // message follows the aircraftlib schema (Regression / Bag root)
	typeID  uint64
	noAlias bool // delivery path copies the bytes (decoder buffers): skip the address check
	nfired  int  // storage faults applied
	negLen  bool
	huge    bool // the walker met a list with more than 65536 elements
	concurrent bool // readers run as scheduled tasks
}

// exact returns a copy of b whose capacity equals its length, so that any
// slice beyond the supplied bytes faults.
func exact(b []byte) []byte {
	c := make([]byte, len(b), len(b))
	copy(c, b)
	return c[:len(b):len(b)]
}

// ---- Go types for pogs.Extract

type planeBase struct {
	Name     string
	Homes    []air.Airport
	Rating   int64
	CanFly   bool
	Capacity int64
	MaxSpeed float64
}
type b737 struct{ Base planeBase }
type a320 struct{ Base planeBase }
type f16 struct{ Base planeBase }
type aircraft struct {
	Which air.Aircraft_Which
	B737  *b737
	A320  *a320
	F16   *f16
}
type regression struct {
	Base   planeBase
	B0     float64
	Beta   []float64
	Planes []aircraft
	Ymu    float64
	Ysd    float64
}
type counter struct {
	Size     int64
	Words    string
	Wordlist []string
	Bitlist  []bool
}
type bag struct{ Counter *counter }

// buildTyped builds a message of the aircraftlib schema and returns its segments.
func (r *run) buildTyped() ([][]byte, uint64, error) {
	s := r.s
	var arena capnp.Arena
	if s.Choice("typed-arena", 2) == 0 {
		arena = capnp.SingleSegment(nil)
	} else {
		arena = capnp.MultiSegment(nil)
	}
	msg, seg, err := capnp.NewMessage(arena)
	if err != nil {
		return nil, 0, err
	}
	var typeID uint64
	if s.Choice("typed-root", 2) == 0 {
		typeID = air.Regression_TypeID
		reg, err := air.NewRootRegression(seg)
		if err != nil {
			return nil, 0, err
		}
		base, _ := reg.NewBase()
		base.SetName("plane-" + strings.Repeat("x", s.Choice("namelen", 6)))
		homes, _ := base.NewHomes(int32(s.Choice("nhomes", 4)))
		for i := 0; i < homes.Len(); i++ {
			homes.Set(i, air.Airport(s.Choice("airport", 7)))
		}
		base.SetRating(int64(s.Choice("rating", 100)))
		base.SetCanFly(s.Choice("canfly", 2) == 1)
		reg.SetB0(1.5)
		beta, _ := reg.NewBeta(int32(s.Choice("nbeta", 4)))
		for i := 0; i < beta.Len(); i++ {
			beta.Set(i, float64(i)+0.25)
		}
		planes, _ := reg.NewPlanes(int32(s.Choice("nplanes", 4)))
		for i := 0; i < planes.Len(); i++ {
			p := planes.At(i)
			switch s.Choice("plane-kind", 4) {
			case 0:
				p.SetVoid()
			case 1:
				b, _ := p.NewB737()
				pb, _ := b.NewBase()
				pb.SetName("b737")
				pb.SetCapacity(100)
			case 2:
				a, _ := p.NewA320()
				pb, _ := a.NewBase()
				pb.SetName("a320")
			case 3:
				f, _ := p.NewF16()
				pb, _ := f.NewBase()
				pb.SetMaxSpeed(2.0)
			}
		}
	} else {
		typeID = air.Bag_TypeID
		bg, err := air.NewRootBag(seg)
		if err != nil {
			return nil, 0, err
		}
		c, _ := bg.NewCounter()
		c.SetSize(int64(s.Choice("size", 1000)))
		c.SetWords("words " + strings.Repeat("w", s.Choice("wlen", 5)))
		wl, _ := c.NewWordlist(int32(s.Choice("nwords", 4)))
		for i := 0; i < wl.Len(); i++ {
			wl.Set(i, fmt.Sprintf("w%d", i))
		}
		bl, _ := c.NewBitlist(int32(s.Choice("nbits", 12)))
		for i := 0; i < bl.Len(); i++ {
			bl.Set(i, s.Choice("bit", 2) == 1)
		}
	}
	var segs [][]byte
	for i := int64(0); i < msg.NumSegments(); i++ {
		sg, err := msg.Segment(capnp.SegmentID(i))
		if err != nil {
			return nil, 0, err
		}
		segs = append(segs, append([]byte(nil), sg.Data()...))
	}
	return segs, typeID, nil
}

// ---- storage faults

func words(seg []byte) int { return len(seg) / 8 }

func (r *run) smashWord(nsegs int, segWords int, at int) uint64 {
	s := r.s
	offs := []int32{-1, 0, 1, int32(segWords - at - 2), int32(segWords - at - 1), int32(segWords - at), int32(-at - 1), int32(-at - 2), 1<<29 - 1, -(1 << 29)}
	off := offs[s.Choice("sm-off", len(offs))]
	sz16 := []uint64{0, 1, 2, 0xffff, 0x8000}
	switch s.Choice("sm-kind", 5) {
	case 0: // struct pointer
		return uint64(uint32(off)<<2) | sz16[s.Choice("sm-dw", len(sz16))]<<32 | sz16[s.Choice("sm-pw", len(sz16))]<<48
	case 1: // list pointer
		counts := []uint64{0, 1, 2, uint64(segWords), uint64(segWords + 1), 1<<29 - 1, 1 << 28}
		return uint64(uint32(off)<<2) | 1 | uint64(s.Choice("sm-elem", 8))<<32 | counts[s.Choice("sm-count", len(counts))]<<35
	case 2: // far pointer
		segsel := []uint64{0, uint64(nsegs - 1), uint64(nsegs), 1<<32 - 1}
		pad := []uint64{0, uint64(segWords - 1), uint64(segWords), uint64(segWords - 2), 1<<29 - 1}
		return 2 | uint64(s.Choice("sm-double", 2))<<2 | pad[s.Choice("sm-pad", len(pad))]<<3 | segsel[s.Choice("sm-seg", len(segsel))]<<32
	case 3: // capability / unknown other pointer
		if s.Choice("sm-other", 2) == 0 {
			return 3 | uint64(s.Choice("sm-cap", 5))<<32
		}
		return 3 | uint64(1+s.Choice("sm-otherbits", 7))<<2
	default: // composite-tag-like word: struct pointer whose offset field is an element count
		cnts := []int32{0, 1, -1, -2, int32(segWords), 1<<29 - 1, -(1 << 29)}
		c := cnts[s.Choice("sm-tagcount", len(cnts))]
		return uint64(uint32(c)<<2) | sz16[s.Choice("sm-dw", len(sz16))]<<32 | sz16[s.Choice("sm-pw", len(sz16))]<<48
	}
}

func (r *run) corrupt(segs [][]byte) {
	s := r.s
	// targeted fault: overwrite the tag word of a composite list (found with the reference
	// validator on the pristine bytes) with boundary values - zero-size elements, negative or
	// huge element counts
	if rep, err := wire.Validate(segs); err == nil && s.Chance("tag-smash", 1, 4) {
		var tags []wire.Extent
		for _, e := range rep.Extents {
			if e.What == "composite" {
				tags = append(tags, e)
			}
		}
		if len(tags) > 0 {
			e := tags[s.Choice("tag-which", len(tags))]
			cnts := []int32{-1, -2, -(1 << 29), 0, 1, int32(e.Words), 1<<29 - 1}
			szs := []uint64{0, 0, 1, 0xffff}
			c := cnts[s.Choice("tag-count", len(cnts))]
			w := uint64(uint32(c)<<2) | szs[s.Choice("tag-dw", len(szs))]<<32 | szs[s.Choice("tag-pw", len(szs))]<<48
			binary.LittleEndian.PutUint64(segs[e.Seg][8*e.Off:], w)
			s.Fault("tag_smash")
			r.nfired++
			if s.Chance("tag-and-ptr", 1, 2) {
				// make the list pointer agree with a zero-size body so that the tag is actually consulted
				for si := range segs {
					for at := 0; at+8 <= len(segs[si]); at += 8 {
						v := binary.LittleEndian.Uint64(segs[si][at:])
						if v&3 == 1 && (v>>32)&7 == 7 && si == e.Seg && at/8+1+int(int32(uint32(v))>>2) == e.Off {
							binary.LittleEndian.PutUint64(segs[si][at:], v&(1<<35-1))
						}
					}
				}
			}
		}
	}
	nf := s.Choice("nfaults", 5)
	for f := 0; f < nf; f++ {
		if len(segs) == 0 {
			return
		}
		r.nfired++
		si := s.Choice("f-seg", len(segs))
		w := words(segs[si])
		switch k := s.Choice("f-kind", 8); {
		case k <= 2 && w > 0: // bit flip
			at := s.Choice("f-word", w)
			bit := s.Choice("f-bit", 64)
			segs[si][8*at+bit/8] ^= 1 << uint(bit%8)
			s.Fault("bitflip")
		case k <= 5 && w > 0: // overwrite a word with a boundary-valued hostile pointer
			at := s.Choice("f-word", w)
			binary.LittleEndian.PutUint64(segs[si][8*at:], r.smashWord(len(segs), w, at))
			s.Fault("word_smash")
		case k == 6 && w > 0: // torn segment
			segs[si] = segs[si][:8*s.Choice("f-trunc", w)]
			s.Fault("truncate_segment")
		case k == 7 && len(segs) > 1: // segment dropped / duplicated / swapped
			switch s.Choice("f-segop", 3) {
			case 0:
				copy(segs[si:], segs[si+1:])
				segs = segs[:len(segs)-1]
				s.Fault("segment_drop")
			case 1:
				segs[si] = append([]byte(nil), segs[(si+1)%len(segs)]...)
				s.Fault("segment_dup")
			case 2:
				j := (si + 1) % len(segs)
				segs[si], segs[j] = segs[j], segs[si]
				s.Fault("segment_swap")
			}
		}
	}
	r.segs = segs
}

// ---- faulty arena

type badArena struct {
	segs   [][]byte
	mode   int
	errSeg int
}

func (a *badArena) NumSegments() int64 {
	if a.mode == 2 {
		return 1 << 32
	}
	return int64(len(a.segs))
}
func (a *badArena) Data(id capnp.SegmentID) ([]byte, error) {
	if int(id) >= len(a.segs) {
		return nil, errors.New("badArena: no such segment")
	}
	switch a.mode {
	case 0:
		if int(id) == a.errSeg {
			return nil, errors.New("badArena: injected Data error")
		}
	case 1:
		if int(id) == a.errSeg && len(a.segs[id]) > 3 {
			b := a.segs[id]
			return b[: len(b)-3 : len(b)-3], nil // not word aligned
		}
	}
	return a.segs[id], nil
}
func (a *badArena) Allocate(capnp.Size, map[capnp.SegmentID]*capnp.Segment) (capnp.SegmentID, []byte, error) {
	return 0, nil, errors.New("badArena: read-only")
}

// ---- delivery

func (r *run) deliver() (*capnp.Message, string) {
	s := r.s
	for i := range r.segs {
		r.segs[i] = exact(r.segs[i])
	}
	switch k := s.Choice("delivery", 7); {
	case k == 0 || len(r.segs) == 0:
		return &capnp.Message{Arena: capnp.MultiSegment(r.segs)}, "MultiSegment"
	case k == 1 && len(r.segs) == 1:
		return &capnp.Message{Arena: capnp.SingleSegment(r.segs[0])}, "SingleSegment"
	case k == 2 || k == 3:
		frame := wire.BuildFrame(r.segs)
		if s.Chance("segtable-tamper", 1, 4) && len(frame) >= 8 {
			// tamper-at 0..7: flip one bit of the first header word; 8..11: boundary values of the
			// segment-count field (the arithmetic on count+1 and on the header size must not wrap)
			if at := s.Choice("tamper-at", 12); at < 8 {
				frame[at] ^= 1 << uint(s.Choice("tamper-bit", 8))
			} else {
				binary.LittleEndian.PutUint32(frame, []uint32{0xffffffff, 0xfffffffe, 0x7fffffff, 0x00010000}[at-8])
				s.Probe("segment_count_boundary_value")
			}
			s.Fault("segtable_tamper")
		}
		if k == 3 {
			p := exact(packedref.Pack(frame))
			r.noAlias = true
			m, err := capnp.UnmarshalPacked(p)
			if err != nil {
				return nil, "UnmarshalPacked: " + err.Error()
			}
			return m, "UnmarshalPacked"
		}
		frame = exact(frame)
		r.extra = append(r.extra, frame)
		m, err := capnp.Unmarshal(frame)
		if err != nil {
			return nil, "Unmarshal: " + err.Error()
		}
		return m, "Unmarshal"
	case k == 4:
		frame := wire.BuildFrame(r.segs)
		pk := s.Choice("dec-packed", 2) == 1
		if pk {
			frame = packedref.Pack(frame)
		}
		rd := simio.NewReader(frame)
		chunk := []int{0, 1, 7, 8, 9, 64}[s.Choice("chunk", 6)]
		rd.Chunk = func() int { return chunk }
		var d *capnp.Decoder
		if pk {
			d = capnp.NewPackedDecoder(rd)
		} else {
			d = capnp.NewDecoder(rd)
		}
		if s.Choice("reuse", 2) == 1 {
			d.ReuseBuffer()
		}
		r.noAlias = true
		m, err := d.Decode()
		if err != nil {
			return nil, "Decode: " + err.Error()
		}
		return m, "Decoder"
	case k == 5:
		a := &badArena{segs: r.segs, mode: s.Choice("bad-mode", 3), errSeg: s.Choice("bad-seg", len(r.segs))}
		s.Fault("arena_fault")
		return &capnp.Message{Arena: a}, fmt.Sprintf("badArena(mode %d)", a.mode)
	default:
		return &capnp.Message{Arena: capnp.MultiSegment(r.segs)}, "MultiSegment"
	}
}

// ---- containment

func (r *run) inside(b []byte) bool {
	if len(b) == 0 || r.noAlias {
		return true
	}
	lo := uintptr(unsafe.Pointer(&b[0]))
	hi := lo + uintptr(len(b))
	for _, set := range [][][]byte{r.segs, r.extra} {
		for _, sg := range set {
			if len(sg) == 0 {
				continue
			}
			a := uintptr(unsafe.Pointer(&sg[0]))
			if lo >= a && hi <= a+uintptr(len(sg)) {
				return true
			}
		}
	}
	return false
}

func (r *run) checkBytes(b []byte, what string) {
	if !r.inside(b) {
		r.s.Fail("out_of_segment", "pointer.go:"+what, fmt.Sprintf("%s returned %d bytes that do not lie inside the supplied segment bytes", what, len(b)))
	}
}

// ---- generic walker: every read-side operation on every pointer

func (r *run) spend() bool {
	r.calls++
	return r.calls <= r.budget && !r.s.Failed()
}

func (r *run) walkPtr(p capnp.Ptr, depth int) {
	if !r.spend() || depth > 80 {
		return
	}
	_ = p.IsValid()
	if b := p.Data(); b != nil {
		r.checkBytes(b, "Data")
	}
	if b := p.TextBytes(); b != nil {
		r.checkBytes(b, "TextBytes")
	}
	_ = p.Text()
	if st := p.Struct(); st.IsValid() {
		r.walkStruct(st, depth)
	}
	if l := p.List(); l.IsValid() {
		r.walkList(l, depth)
	}
	if i := p.Interface(); i.IsValid() {
		_ = i.Capability()
		_ = i.Client()
	}
}

func (r *run) walkStruct(st capnp.Struct, depth int) {
	sz := st.Size()
	ds := int(sz.DataSize)
	for _, off := range []int{0, 1, 7, ds - 8, ds - 1, ds, ds + 8} {
		if off < 0 || off >= 1<<19-8 {
			continue
		}
		_ = st.Uint8(capnp.DataOffset(off))
		_ = st.Uint16(capnp.DataOffset(off &^ 1))
		_ = st.Uint32(capnp.DataOffset(off &^ 3))
		_ = st.Uint64(capnp.DataOffset(off &^ 7))
		_ = st.Bit(capnp.BitOffset(off * 8))
	}
	np := int(sz.PointerCount)
	idx := []int{0, 1, 2, np - 1, np, np + 1}
	seen := map[int]bool{}
	for _, i := range idx {
		if i < 0 || i > 0xffff || seen[i] {
			continue
		}
		seen[i] = true
		if !r.spend() {
			return
		}
		_ = st.HasPtr(uint16(i))
		p, err := st.Ptr(uint16(i))
		if err == nil {
			r.walkPtr(p, depth+1)
		}
	}
}

func (r *run) elemIdx(n int) []int {
	if n <= 0 {
		return nil
	}
	out := []int{0}
	if n > 1 {
		out = append(out, 1, n-1)
	}
	if n > 4 {
		out = append(out, n/2)
	}
	return out
}

func (r *run) walkList(l capnp.List, depth int) {
	n := l.Len()
	if n < 0 {
		r.s.Probe("list_with_negative_length")
		r.negLen = true
	}
	if n > 1<<16 {
		// Legitimately expensive under a traversal limit that admits it (a zero-sized
		// element is charged one word): the recursive consumers are not run on such messages.
		r.huge = true
	}
	for _, i := range r.elemIdx(n) {
		if !r.spend() {
			return
		}
		_ = capnp.BitList{List: l}.At(i)
		_ = capnp.UInt8List{List: l}.At(i)
		_ = capnp.UInt16List{List: l}.At(i)
		_ = capnp.UInt32List{List: l}.At(i)
		_ = capnp.UInt64List{List: l}.At(i)
		_ = capnp.Float64List{List: l}.At(i)
		if p, err := (capnp.PointerList{List: l}).At(i); err == nil {
			r.walkPtr(p, depth+1)
		}
		if b, err := (capnp.TextList{List: l}).BytesAt(i); err == nil && b != nil {
			r.checkBytes(b, "TextList.BytesAt")
		}
		_, _ = capnp.TextList{List: l}.At(i)
		if b, err := (capnp.DataList{List: l}).At(i); err == nil && b != nil {
			r.checkBytes(b, "DataList.At")
		}
		if st := l.Struct(i); st.IsValid() {
			r.walkStruct(st, depth+1)
		}
	}
	if n >= 0 && n < 64 {
		_ = capnp.BitList{List: l}.String()
		_ = capnp.UInt8List{List: l}.String()
		_ = capnp.TextList{List: l}.String()
	}
}

// mayHoldLongList reports whether any word of the delivered segments, read as a list pointer or
// as a composite tag, announces more than thresh (and fewer than 2^29, i.e. not a negative
// number of) elements.  An over-approximation: data words count too.
func (r *run) mayHoldLongList(thresh uint64) bool {
	for _, sg := range r.segs {
		for i := 0; i+8 <= len(sg); i += 8 {
			w := binary.LittleEndian.Uint64(sg[i:])
			switch w & 3 {
			case 1:
				if w>>35 > thresh {
					return true
				}
			case 0:
				if c := uint64(uint32(w) >> 2); c > thresh && c < 1<<29 {
					return true
				}
			}
		}
	}
	return false
}

// consumers: the recursive read-side operations on the root.
func (r *run) consumers(msg *capnp.Message, pristine *capnp.Message) {
	s := r.s
	if r.huge && (msg.TraverseLimit == 0 || msg.TraverseLimit > 1<<20) {
		s.Probe("consumers_skipped_huge_list")
		return
	}
	// a fresh budget for the consumer (the walker may have used the message's up), never more than
	// 256 KiB: under a larger limit a hostile list of millions of zero-sized elements that the walker
	// did not happen to reach is legitimately traversed for minutes (seen in the thorough tier)
	// (and 256 KiB keeps a consumer that dereferences one small object per list element - one
	// schedule point each - inside the step budget of a simulated run)
	cap := uint64(256 << 10)
	if r.concurrent {
		// pogs and the text encoder read the schema for every list element, about a hundred
		// schedule points each: 32 KiB of message keeps such a run inside its step budget
		cap = 32 << 10
	}
	// The cap only applies when some word of the message could be a list pointer or a composite
	// tag announcing that many elements; otherwise the configured limit stands (a negative
	// element count, for instance, is only reachable under the 8 GiB limit).
	thresh := uint64(1 << 16)
	if r.concurrent {
		thresh = 1 << 10
	}
	if r.negLen || !r.mayHoldLongList(thresh) {
		// (a list with a negative length, seen by the walker, is the other thing that only the
		// large limits admit; nothing iterates over it)
		cap = 64 << 20
		if msg.TraverseLimit != 0 {
			cap = msg.TraverseLimit
		}
	}
	if msg.TraverseLimit != 0 && msg.TraverseLimit < cap {
		msg.ResetReadLimit(msg.TraverseLimit)
	} else {
		msg.ResetReadLimit(cap)
	}
	root, err := msg.Root()
	if err != nil {
		return
	}
	which := s.Choice("consumer", 8)
	switch which {
	case 0:
		if _, err := capnp.Equal(root, root); err == nil {
			s.Probe("equal_reached")
		}
		if pristine != nil {
			if pr, err := pristine.Root(); err == nil {
				_, _ = capnp.Equal(root, pr)
				_, _ = capnp.Equal(pr, root)
			}
		}
	case 1:
		if st := root.Struct(); st.IsValid() {
			b, err := capnp.Canonicalize(st)
			if err == nil {
				s.Probe("canonicalize_reached")
				_ = b
			}
		}
	case 2:
		m2, _, err := capnp.NewMessage(capnp.SingleSegment(nil))
		if err == nil {
			if err := m2.SetRoot(root); err == nil {
				s.Probe("deep_copy_reached")
			}
		}
	case 3:
		m2, seg, err := capnp.NewMessage(capnp.MultiSegment(nil))
		if err == nil {
			if st, err := capnp.NewRootStruct(seg, capnp.ObjectSize{DataSize: 8, PointerCount: 2}); err == nil {
				if src := root.Struct(); src.IsValid() {
					_ = st.CopyFrom(src)
				}
				_ = st.SetPtr(1, root)
			}
			_ = m2
		}
	case 4:
		ops := []capnp.PipelineOp{{Field: uint16(s.Choice("xf0", 4))}, {Field: uint16(s.Choice("xf1", 4)), DefaultValue: nil}}
		if p, err := capnp.Transform(root, ops[:1+s.Choice("xflen", 2)]); err == nil {
			r.walkPtr(p, 1)
		}
	case 5, 6:
		if st := root.Struct(); st.IsValid() {
			tid := r.typeID
			if !r.typed {
				tid = []uint64{air.Regression_TypeID, air.Bag_TypeID, air.Z_TypeID}[s.Choice("text-type", 3)]
			}
			if _, err := text.Marshal(tid, st); err == nil {
				s.Probe("text_reached")
			}
		}
	case 7:
		if st := root.Struct(); st.IsValid() {
			var err error
			if r.typeID == air.Bag_TypeID || (!r.typed && s.Choice("pogs-type", 2) == 0) {
				var v bag
				err = pogs.Extract(&v, air.Bag_TypeID, st)
			} else {
				var v regression
				err = pogs.Extract(&v, air.Regression_TypeID, st)
			}
			if err == nil {
				s.Probe("pogs_reached")
			}
		}
	}
}

func (r *run) reader(id int, msg *capnp.Message, pristine *capnp.Message) {
	root, err := msg.Root()
	if err == nil {
		r.walkPtr(root, 0)
	}
	if !r.s.Failed() {
		r.consumers(msg, pristine)
	}
	// segment accessors
	for i := int64(0); i < msg.NumSegments() && i < 8; i++ {
		sg, err := msg.Segment(capnp.SegmentID(i))
		if err == nil {
			r.checkBytes(sg.Data(), "Segment.Data")
		}
	}
}

type nopHook struct{}

func (nopHook) Send(ctx context.Context, s capnp.Send) (*capnp.Answer, capnp.ReleaseFunc) {
	return capnp.ErrorAnswer(s.Method, errors.New("nop")), func() {}
}
func (nopHook) Recv(ctx context.Context, r capnp.Recv) capnp.PipelineCaller {
	r.Reject(errors.New("nop"))
	return nil
}
func (nopHook) Brand() capnp.Brand { return capnp.Brand{} }
func (nopHook) Shutdown()          {}

func (r *run) c01(concurrent bool, k int) {
	s := r.s
	var segs [][]byte
	if s.Choice("source", 3) == 0 {
		sg, tid, err := r.buildTyped()
		if err != nil {
			s.Fail("infra", "readsim", "building the typed message failed: "+err.Error())
			return
		}
		segs, r.typed, r.typeID = sg, true, tid
		r.desc = append(r.desc, fmt.Sprintf("aircraftlib message type %#x, %d segments", tid, len(sg)))
	} else {
		v := wire.RandValue(func(n int) int { return s.Choice("rv", n) }, 1+s.Choice("rv-depth", 3), true)
		segs = wire.Encode(v, wire.EncOpts{SegWords: []int{0, 2, 4, 8, 16, 64}[s.Choice("segwords", 6)], Rand: func(n int) int { return s.Choice("enc", n) }})
		r.desc = append(r.desc, fmt.Sprintf("random value tree in %d segments", len(segs)))
	}
	pristineSegs := make([][]byte, len(segs))
	for i := range segs {
		pristineSegs[i] = append([]byte(nil), segs[i]...)
	}
	pristine := &capnp.Message{Arena: capnp.MultiSegment(pristineSegs)}
	r.segs = segs
	r.corrupt(segs)
	msg, how := r.deliver()
	r.desc = append(r.desc, "delivered via "+how)
	for _, sg := range r.segs {
		r.key = r.key*1099511628211 ^ simrt.Hash64(string(sg))
	}
	r.key ^= simrt.Hash64(how)
	if msg == nil {
		s.Probe("rejected_at_delivery")
		return
	}
	limits := []uint64{0, 64, 1024, 64 << 10, 1 << 20, 1 << 33}
	msg.TraverseLimit = limits[s.Choice("tlimit", len(limits))]
	depths := []uint{0, 1, 2, 3, 4, 5, 63, 64, 65, 70}
	msg.DepthLimit = depths[s.Choice("dlimit", len(depths))]
	if msg.TraverseLimit != 0 {
		// a Decoder with buffer reuse has already initialised the budget: make the limit effective
		msg.ResetReadLimit(msg.TraverseLimit)
	} else {
		msg.ResetReadLimit(64 << 20)
	}
	if len(msg.CapTable) == 0 && s.Choice("captable", 2) == 1 {
		msg.CapTable = []*capnp.Client{capnp.NewClient(nopHook{}), nil}
	}
	if msg.TraverseLimit == 1<<33 || msg.TraverseLimit == 0 {
		// consumers are only run where the traversal limit keeps their work small
		r.budget = 2000
	} else {
		r.budget = 1200
	}
	// The recursive consumers run where their work is certainly small: a traversal limit of at
	// most 1 MiB, or at most one storage fault (a single rewired pointer of a tree cannot
	// produce a DAG blow-up; the depth limit bounds the walk round the one possible cycle).
	heavy := (msg.TraverseLimit != 0 && msg.TraverseLimit <= 1<<20) || r.nfired <= 1
	if !concurrent {
		for i := 0; i < k && !s.Failed(); i++ {
			r.calls = 0
			root, err := msg.Root()
			if err == nil {
				r.walkPtr(root, 0)
			}
			if heavy && !s.Failed() {
				r.consumers(msg, pristine)
			}
		}
		return
	}
	for i := 0; i < k; i++ {
		i := i
		s.Spawn(fmt.Sprintf("reader%d", i), func() {
			if heavy {
				r.reader(i, msg, pristine)
			} else {
				if root, err := msg.Root(); err == nil {
					r.walkPtr(root, 0)
				}
			}
		})
	}
}

func (Engine) Run(t *testing.T, tape *simrt.Tape, opt worker.Options) *worker.Outcome {
	r := &run{prop: opt.Property, budget: 1500}
	var res *simrt.Result
	if opt.Property == "C02" {
		res = r.runC02(t, tape, opt)
	} else {
		k := 1 + tape.Choice("readers", 3)
		concurrent := k > 1 && tape.Choice("concurrent", 3) == 0
		if concurrent {
			r.concurrent = true
			res = simrt.Run(t, simrt.Config{Tape: tape, MaxSteps: 1000000, Trace: opt.Trace}, func(s *simrt.Sched) {
				r.s = s
				r.c01(true, k)
			}, nil)
		} else {
			res = simrt.RunInline(simrt.Config{Tape: tape, Trace: opt.Trace}, func(s *simrt.Sched) {
				r.s = s
				r.c01(false, k)
			})
		}
	}
	oc := &worker.Outcome{Res: res, Verdict: res.Verdict, Ops: r.calls, Probes: res.Probes, Faults: res.Faults}
	oc.NonTrivial = len(res.Faults) > 0 || res.Switches > 0
	oc.Key = r.key ^ res.TraceHash
	oc.Sample = map[string]interface{}{"message": r.desc, "api_calls": r.calls, "faults": res.Faults}
	if oc.Verdict != nil {
		oc.Pattern = oc.Verdict.Oracle
		if len(res.StuckSites) > 0 {
			oc.Pattern = "stuck:" + strings.Join(res.StuckSites, "|")
		}
	}
	return oc
}
