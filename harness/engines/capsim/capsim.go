// Package capsim simulates tasks sharing capnp.Client handles, weak
// references and client promises over instrumented ClientHooks (property C10).
package capsim

import (
	"context"
	"fmt"
	"strings"
	"testing"

	capnp "capnproto.org/go/capnp/v3"
	"capnproto.org/go/capnp/v3/simrt"
	"verifh/worker"
)

type Engine struct{}

func (Engine) Name() string { return "capsim" }

// ---- model

type hookM struct {
	id        int
	promised  bool
	fInvoked  bool   // Fulfill invoked
	fReturned bool   // Fulfill returned
	next      *hookM // resolution target (nil = resolved to null) once fInvoked
	shutdown  int
	fulfilWith *capnp.Client // the very handle this promise was fulfilled with
	active    int // Send/Recv/Brand executing
	sends     []int
}

type handle struct {
	id       int
	c        *capnp.Client
	base     *hookM // hook of the chain this handle was created on
	owner    int
	live     bool // creation completed and Release not yet invoked
	released bool // Release invoked
	relDone  bool // Release returned
}

type run struct {
	brandHold bool
	s       *simrt.Sched
	hooks   []*hookM
	handles []*handle
	nextCal int
	ops     int
	calls   map[int]*callRec
}

type callRec struct {
	id        int
	handle    *handle
	minIdx    int // delivery must not be to a hook before this position in the chain
	chain     []*hookM
	delivered []int // hook ids
	errored   bool
	done      bool
}

// chain returns the resolution chain from base: base, base.next, ... ;
// endsNil reports whether the chain ends in a null resolution.
func chain(b *hookM) (hs []*hookM, endsNil bool) {
	for h := b; ; {
		hs = append(hs, h)
		if !h.promised || !h.fInvoked {
			return hs, false
		}
		if h.next == nil {
			return hs, true
		}
		h = h.next
		if len(hs) > 64 {
			return hs, false
		}
	}
}

// effective returns the hook a handle on base unambiguously refers to, or
// (nil, true) if a Fulfill affecting it is executing, or (nil,false) when it
// resolved to null.
func effective(b *hookM) (h *hookM, ambiguous bool) {
	for h = b; ; {
		if !h.promised || !h.fInvoked {
			return h, false
		}
		if !h.fReturned {
			return nil, true
		}
		if h.next == nil {
			return nil, false
		}
		h = h.next
	}
}

// ---- instrumented hook

type simHook struct {
	r *run
	m *hookM
}

func (h *simHook) enter(what string, callID int) {
	r := h.r
	if h.m.shutdown > 0 {
		r.s.Fail("call_after_shutdown", "capability.go:"+what, fmt.Sprintf("%s reached hook H%d after its Shutdown (call %d)", what, h.m.id, callID))
	}
	h.m.active++
	r.s.Logf("hook H%d %s begin call=%d", h.m.id, what, callID)
}

func (h *simHook) leave(what string, callID int) {
	h.m.active--
	h.r.s.Logf("hook H%d %s end call=%d", h.m.id, what, callID)
}

func (h *simHook) Send(ctx context.Context, s capnp.Send) (*capnp.Answer, capnp.ReleaseFunc) {
	id := int(s.Method.InterfaceID)
	h.enter("Send", id)
	if cr := h.r.calls[id]; cr != nil {
		cr.delivered = append(cr.delivered, h.m.id)
	}
	// stay "in flight" for a tape-chosen number of schedule points
	n := h.r.s.Choice("send-hold", 4)
	for i := 0; i < n; i++ {
		simrt.YieldAt("hook-send")
	}
	h.leave("Send", id)
	return capnp.ErrorAnswer(s.Method, fmt.Errorf("delivered:%d:%d", h.m.id, id)), func() {}
}

func (h *simHook) Recv(ctx context.Context, r capnp.Recv) capnp.PipelineCaller {
	id := int(r.Method.InterfaceID)
	h.enter("Recv", id)
	if cr := h.r.calls[id]; cr != nil {
		cr.delivered = append(cr.delivered, h.m.id)
	}
	n := h.r.s.Choice("recv-hold", 3)
	for i := 0; i < n; i++ {
		simrt.YieldAt("hook-recv")
	}
	r.Reject(fmt.Errorf("delivered:%d:%d", h.m.id, id))
	h.leave("Recv", id)
	return nil
}

func (h *simHook) Brand() capnp.Brand {
	if h.m.shutdown > 0 {
		h.r.s.Fail("call_after_shutdown", "capability.go:Brand", fmt.Sprintf("Brand reached hook H%d after its Shutdown", h.m.id))
	}
	if h.r.brandHold {
		// Brand is an access to the capability like Send and Recv: it takes a moment, and the
		// capability must not be shut down while it runs (Client.State brackets it like a call)
		h.m.active++
		simrt.YieldAt("hook-brand")
		h.m.active--
		h.r.s.Probe("brand_in_progress_across_a_schedule_point")
	}
	return capnp.Brand{Value: h.m.id}
}

func (h *simHook) Shutdown() {
	r := h.r
	m := h.m
	r.s.Logf("hook H%d Shutdown", m.id)
	m.shutdown++
	if m.shutdown > 1 {
		r.s.Fail("shutdown_twice", "capability.go:Shutdown", fmt.Sprintf("hook H%d shut down %d times", m.id, m.shutdown))
	}
	if m.active > 0 {
		r.s.Fail("shutdown_during_call", "capability.go:Shutdown", fmt.Sprintf("hook H%d shut down while %d call(s) are executing in it", m.id, m.active))
	}
	if c := m.fulfilWith; c != nil {
		// a promise hook that looks at the capability it was resolved to while it is shut down
		// (the RPC layer's embargo hook releases it there): Fulfill must not hold that handle's
		// lock while it runs the hook's Shutdown
		_ = c.IsValid()
		r.s.Probe("promise_hook_shutdown_touches_fulfilment_handle")
	}
	if m.promised && m.fInvoked {
		return // shut down by (or after) promise resolution: legitimate
	}
	// No live handle may be unambiguously attached to m.
	for _, hd := range r.handles {
		if !hd.live {
			continue
		}
		eff, amb := effective(hd.base)
		if !amb && eff == m {
			r.s.Fail("shutdown_while_referenced", "capability.go:Shutdown",
				fmt.Sprintf("hook H%d shut down while live handle c%d (owner task %d, base H%d) still refers to it", m.id, hd.id, hd.owner, hd.base.id))
		}
	}
}

type fakeReturner struct {
	r      *run
	callID int
	rets   int
	err    error
}

func (f *fakeReturner) AllocResults(sz capnp.ObjectSize) (capnp.Struct, error) {
	_, seg, err := capnp.NewMessage(capnp.SingleSegment(nil))
	if err != nil {
		return capnp.Struct{}, err
	}
	return capnp.NewRootStruct(seg, sz)
}

func (f *fakeReturner) Return(e error) {
	f.rets++
	f.err = e
}

// ---- workload

func (r *run) newHandle(c *capnp.Client, base *hookM, owner int) *handle {
	h := &handle{id: len(r.handles), c: c, base: base, owner: owner, live: c != nil}
	r.handles = append(r.handles, h)
	return h
}

type taskState struct {
	id       int
	borrowed []*handle // handles owned by another task; we only make calls through them
	own      []*handle
	weak     []*weakRef
	promises []*promRec
}

type weakRef struct {
	w    *capnp.WeakClient
	base *hookM
}

type promRec struct {
	p *capnp.ClientPromise
	m *hookM
}

func (r *run) liveOf(ts *taskState) []*handle {
	var out []*handle
	for _, h := range ts.own {
		if h.live {
			out = append(out, h)
		}
	}
	return out
}

func (r *run) doCall(ts *taskState, hd *handle, recv bool) {
	borrowed := hd.owner != ts.id
	s := r.s
	r.nextCal++
	id := r.nextCal
	cr := &callRec{id: id, handle: hd}
	r.calls[id] = cr
	// Hooks the call may legitimately reach: the chain from the first hook
	// whose Fulfill has not returned yet.
	ch, _ := chain(hd.base)
	cr.chain = ch
	for i, h := range ch {
		cr.minIdx = i
		if !(h.promised && h.fReturned) {
			break
		}
	}
	wasReleased := hd.relDone // Release had returned before this call was invoked
	_, endsNilBefore := chain(hd.base)
	s.Logf("task %d call %d on c%d recv=%v released=%v", ts.id, id, hd.id, recv, wasReleased)
	var err error
	if recv {
		fr := &fakeReturner{r: r, callID: id}
		pc := hd.c.RecvCall(context.Background(), capnp.Recv{
			Method:      capnp.Method{InterfaceID: uint64(id), MethodID: 1},
			ReleaseArgs: func() {},
			Returner:    fr,
		})
		if fr.rets != 1 {
			s.Fail("call_not_completed", "capability.go:RecvCall", fmt.Sprintf("call %d: Returner.Return called %d times, PipelineCaller=%v", id, fr.rets, pc))
			return
		}
		err = fr.err
	} else {
		ans, rel := hd.c.SendCall(context.Background(), capnp.Send{Method: capnp.Method{InterfaceID: uint64(id), MethodID: 1}})
		_, err = ans.Struct()
		rel()
	}
	cr.done = true
	s.Logf("task %d call %d -> %v delivered=%v", ts.id, id, err, cr.delivered)
	if len(cr.delivered) > 1 {
		s.Fail("delivered_twice", "capability.go:SendCall", fmt.Sprintf("call %d delivered to hooks %v", id, cr.delivered))
		return
	}
	if wasReleased {
		if len(cr.delivered) != 0 || err == nil {
			s.Fail("released_client_call", "capability.go:SendCall", fmt.Sprintf("call %d on released handle c%d: delivered=%v err=%v", id, hd.id, cr.delivered, err))
		}
		return
	}
	if len(cr.delivered) == 0 {
		// legitimate only if the chain ends in null (now) - a call on a null client -
		// or, for a handle shared with its owner, if the owner released it meanwhile
		_, endsNil := chain(hd.base)
		if borrowed && hd.released {
			s.Probe("shared_handle_released_during_call")
		} else if !endsNil && !endsNilBefore {
			s.Fail("delivered_never", "capability.go:SendCall", fmt.Sprintf("call %d on live handle c%d (base H%d) reached no hook: err=%v", id, hd.id, hd.base.id, err))
		}
		if err == nil {
			s.Fail("delivered_never", "capability.go:SendCall", fmt.Sprintf("call %d reached no hook but returned no error", id))
		}
		return
	}
	got := cr.delivered[0]
	// must be a hook of the (current) chain at position >= minIdx
	ch2, _ := chain(hd.base)
	okPos := false
	for i, h := range ch2 {
		if h.id == got && i >= cr.minIdx {
			okPos = true
		}
	}
	if !okPos {
		s.Fail("misdelivered", "capability.go:SendCall", fmt.Sprintf("call %d on handle c%d (base H%d) delivered to H%d; legal targets: chain %s from index %d", id, hd.id, hd.base.id, got, chainStr(ch2), cr.minIdx))
		return
	}
	if err == nil || !strings.Contains(err.Error(), fmt.Sprintf("delivered:%d:%d", got, id)) {
		s.Fail("wrong_answer", "capability.go:SendCall", fmt.Sprintf("call %d delivered to H%d but answer error is %v", id, got, err))
	}
}

func chainStr(ch []*hookM) string {
	var b strings.Builder
	for i, h := range ch {
		if i > 0 {
			b.WriteString("->")
		}
		fmt.Fprintf(&b, "H%d", h.id)
	}
	return b.String()
}

func (r *run) release(ts *taskState, hd *handle) {
	r.s.Logf("task %d release c%d (base H%d)", ts.id, hd.id, hd.base.id)
	hd.live = false
	hd.released = true
	hd.c.Release()
	hd.relDone = true
	r.s.Logf("task %d release c%d done", ts.id, hd.id)
}

func (r *run) fulfill(ts *taskState, pr *promRec, target *handle) {
	s := r.s
	m := pr.m
	if target != nil {
		m.next = target.base
		s.Logf("task %d fulfill H%d with c%d (base H%d)", ts.id, m.id, target.id, target.base.id)
	} else {
		m.next = nil
		s.Logf("task %d fulfill H%d with nil", ts.id, m.id)
	}
	m.fInvoked = true
	var c *capnp.Client
	if target != nil {
		c = target.c
	}
	m.fulfilWith = c
	pr.p.Fulfill(c)
	m.fReturned = true
	s.Logf("task %d fulfill H%d returned", ts.id, m.id)
	if m.shutdown != 1 {
		// Not a verdict: when the promised client ran out of references while a call was
		// in flight, the releasing goroutine performs the Shutdown and may not have been
		// scheduled yet.  The end-of-run check requires exactly one Shutdown.
		s.Probe("fulfill_returned_before_concurrent_release_shutdown")
	}
}

func (r *run) taskBody(ts *taskState, nops int) {
	s := r.s
	for i := 0; i < nops && !s.Failed(); i++ {
		r.ops++
		live := r.liveOf(ts)
		op := s.Choice("op", 14)
		switch {
		case op >= 12 && len(ts.borrowed) > 0: // call through a handle another task owns (and may release at any time)
			hd := ts.borrowed[s.Choice("b", len(ts.borrowed))]
			s.Probe("call_on_shared_handle")
			r.doCall(ts, hd, op == 13)
		case op == 0 && len(live) > 0: // AddRef
			hd := live[s.Choice("h", len(live))]
			s.Logf("task %d addref c%d", ts.id, hd.id)
			c := hd.c.AddRef()
			if c == nil {
				// legitimate only if the chain resolved to null
				if _, endsNil := chain(hd.base); !endsNil {
					s.Fail("addref_nil", "capability.go:(*Client).AddRef", fmt.Sprintf("AddRef on live handle c%d returned nil though its chain does not end in null", hd.id))
				}
				continue
			}
			nh := r.newHandle(c, hd.base, ts.id)
			ts.own = append(ts.own, nh)
		case op == 1 && len(live) > 0: // Release
			r.release(ts, live[s.Choice("h", len(live))])
		case (op == 2 || op == 3) && len(live) > 0: // SendCall
			r.doCall(ts, live[s.Choice("h", len(live))], false)
		case op == 4 && len(live) > 0: // RecvCall
			r.doCall(ts, live[s.Choice("h", len(live))], true)
		case op == 5 && len(live) > 0: // WeakRef
			hd := live[s.Choice("h", len(live))]
			w := hd.c.WeakRef()
			if w != nil {
				ts.weak = append(ts.weak, &weakRef{w: w, base: hd.base})
			}
		case op == 6 && len(ts.weak) > 0: // weak upgrade
			w := ts.weak[s.Choice("w", len(ts.weak))]
			eff0, amb0 := effective(w.base)
			shutBefore := !amb0 && eff0 != nil && eff0.shutdown > 0 && !eff0.promised
			c, ok := w.w.AddRef()
			s.Logf("task %d weak upgrade base H%d -> ok=%v nil=%v", ts.id, w.base.id, ok, c == nil)
			if ok && c != nil {
				if shutBefore {
					s.Fail("weak_upgrade_after_shutdown", "capability.go:(*WeakClient).AddRef", fmt.Sprintf("weak reference to H%d upgraded although the hook had already been shut down", eff0.id))
					continue
				}
				s.Probe("weak_upgrade_ok")
				nh := r.newHandle(c, w.base, ts.id)
				ts.own = append(ts.own, nh)
			} else if !ok {
				s.Probe("weak_upgrade_after_zero")
			}
		case op == 7 && len(ts.promises) > 0: // Fulfill
			k := s.Choice("p", len(ts.promises))
			pr := ts.promises[k]
			ts.promises = append(ts.promises[:k], ts.promises[k+1:]...)
			// candidates: live handles whose base index > promise index (no cycles), or nil
			var cands []*handle
			for _, hd := range live {
				if hd.base.id > pr.m.id {
					cands = append(cands, hd)
				}
			}
			j := s.Choice("target", len(cands)+1)
			var target *handle
			if j < len(cands) {
				target = cands[j]
				if target.base.promised {
					s.Probe("fulfill_with_promised_target")
				}
			} else {
				s.Probe("fulfill_nil")
			}
			r.fulfill(ts, pr, target)
		case op == 8 && len(live) > 0: // State / String / IsValid
			hd := live[s.Choice("h", len(live))]
			st := hd.c.State()
			_ = hd.c.String()
			valid := hd.c.IsValid()
			_, endsNil := chain(hd.base)
			if !valid && !endsNil {
				s.Fail("live_handle_invalid", "capability.go:(*Client).IsValid", fmt.Sprintf("IsValid()==false on live handle c%d whose chain does not end in null", hd.id))
			}
			_ = st
		case op == 9 && len(live) > 1: // IsSame
			a := live[s.Choice("h", len(live))]
			b := live[s.Choice("h", len(live))]
			same := a.c.IsSame(b.c)
			ea, amba := effective(a.base)
			eb, ambb := effective(b.base)
			if !amba && !ambb && ea != eb && same && ea != nil && eb != nil {
				s.Fail("issame_wrong", "capability.go:(*Client).IsSame", fmt.Sprintf("c%d and c%d reported same but refer to H%d and H%d", a.id, b.id, ea.id, eb.id))
			}
		case op == 10 && len(live) > 0: // Resolve with a context that is already resolved or cancelled
			hd := live[s.Choice("h", len(live))]
			ctx, cancel := context.WithCancel(context.Background())
			if s.Choice("cancel-first", 2) == 1 {
				cancel()
			}
			eff, amb := effective(hd.base)
			if !amb && (eff == nil || !eff.promised) || ctx.Err() != nil {
				_ = hd.c.Resolve(ctx)
			}
			cancel()
		case op == 11: // call on a released handle of ours
			var rel []*handle
			for _, hd := range ts.own {
				if hd.released {
					rel = append(rel, hd)
				}
			}
			if len(rel) > 0 {
				r.doCall(ts, rel[s.Choice("h", len(rel))], s.Choice("recv", 2) == 1)
			}
		}
	}
	// wind down: fulfil our promises, release our handles
	for len(ts.promises) > 0 && !s.Failed() {
		pr := ts.promises[0]
		ts.promises = ts.promises[1:]
		var cands []*handle
		for _, hd := range r.liveOf(ts) {
			if hd.base.id > pr.m.id {
				cands = append(cands, hd)
			}
		}
		j := s.Choice("target", len(cands)+1)
		var target *handle
		if j < len(cands) {
			target = cands[j]
		}
		r.fulfill(ts, pr, target)
	}
	for _, hd := range r.liveOf(ts) {
		if s.Failed() {
			return
		}
		r.release(ts, hd)
	}
}

func (Engine) Run(t *testing.T, tape *simrt.Tape, opt worker.Options) *worker.Outcome {
	r := &run{calls: map[int]*callRec{}}
	// (tapes recorded before Brand took a schedule point carry no "brand" parameter and keep their meaning)
	r.brandHold = opt.Params["brand"] == "hold" || !tape.Replaying()
	var tasks []*taskState
	body := func(s *simrt.Sched) {
		r.s = s
		nh := 1 + s.Choice("nhooks", 3)
		nt := 2 + s.Choice("ntasks", 3)
		for i := 0; i < nt; i++ {
			tasks = append(tasks, &taskState{id: i + 1})
		}
		var roots []*handle
		for i := 0; i < nh; i++ {
			m := &hookM{id: i}
			r.hooks = append(r.hooks, m)
			hk := &simHook{r: r, m: m}
			// the last hook is never promised so that promises have a concrete target available
			if i < nh-1 && s.Choice("promised", 2) == 1 || (nh == 1 && s.Choice("promised1", 4) == 3) {
				m.promised = true
				c, p := capnp.NewPromisedClient(hk)
				roots = append(roots, r.newHandle(c, m, 0))
				ts := tasks[s.Choice("resolver", nt)]
				ts.promises = append(ts.promises, &promRec{p: p, m: m})
			} else {
				roots = append(roots, r.newHandle(capnp.NewClient(hk), m, 0))
			}
		}
		// hand out references
		for _, ts := range tasks {
			for _, root := range roots {
				if s.Choice("give", 3) != 0 {
					c := root.c.AddRef()
					hd := r.newHandle(c, root.base, ts.id)
					ts.own = append(ts.own, hd)
					if s.Choice("lend", 3) == 0 {
						// Client is documented as safe for use from multiple goroutines:
						// another task makes calls through this very handle
						other := tasks[s.Choice("lend-to", nt)]
						if other != ts {
							other.borrowed = append(other.borrowed, hd)
						}
					}
				}
			}
		}
		main := &taskState{id: 0, own: roots}
		for _, ts := range tasks {
			ts := ts
			nops := 3 + s.Choice("nops", 10)
			s.Spawn(fmt.Sprintf("w%d", ts.id), func() { r.taskBody(ts, nops) })
		}
		// the main task releases the root handles while the others run
		for _, root := range roots {
			simrt.YieldAt("main")
			if s.Failed() {
				return
			}
			r.release(main, root)
		}
	}
	final := func(s *simrt.Sched) {
		// everything is released and every promise fulfilled: each hook has exactly one Shutdown
		for _, m := range r.hooks {
			if m.shutdown != 1 {
				s.Fail("shutdown_count", "capability.go:Shutdown", fmt.Sprintf("at end of run hook H%d (promised=%v) has been shut down %d times, want exactly 1", m.id, m.promised, m.shutdown))
			}
		}
		for _, cr := range r.calls {
			if !cr.done {
				s.Fail("call_not_completed", "capability.go:SendCall", fmt.Sprintf("call %d never completed", cr.id))
			}
		}
	}
	res := simrt.Run(t, simrt.Config{Tape: tape, MaxSteps: 5000, Trace: opt.Trace}, body, final)
	oc := &worker.Outcome{Res: res, Verdict: res.Verdict, Ops: r.ops, Probes: res.Probes, Faults: res.Faults}
	oc.NonTrivial = res.Switches > 0
	oc.Key = res.TraceHash
	if r.brandHold {
		oc.ReplayParams = map[string]string{"brand": "hold"}
	}
	oc.Sample = map[string]interface{}{"hooks": len(r.hooks), "tasks": len(tasks), "handles": len(r.handles), "ops": r.ops, "calls": len(r.calls), "steps": res.Steps, "switches": res.Switches}
	if oc.Verdict != nil {
		oc.Pattern = oc.Verdict.Oracle
		if len(res.StuckSites) > 0 {
			oc.Pattern = "stuck:" + strings.Join(res.StuckSites, "|")
		}
	}
	return oc
}
