// Package srvsim simulates callers of a server.Server (property C12): call
// ordering, ack gating, the concurrency cap, pipelined calls on unreturned
// answers, cancellation and shutdown.
package srvsim

import (
	"context"
	"fmt"
	"strings"
	"testing"

	capnp "capnproto.org/go/capnp/v3"
	"capnproto.org/go/capnp/v3/server"
	"capnproto.org/go/capnp/v3/simrt"
	"verifh/worker"
)

type Engine struct{}

func (Engine) Name() string { return "srvsim" }

const ifaceID = 0x5e5e

// behaviour flags carried in the call arguments
const (
	fAckEarly = 1 << iota // Ack before doing anything else
	fAckLate              // Ack after some schedule points
	fLong                 // after Ack, run until the context is cancelled
	fFail                 // return an error
	fCap                  // put a client of the next server (A -> B, B -> C) into the results (pointer 0)
	fNoAlloc              // do not allocate results
)

type callM struct {
	id        int
	srv       int // 0 = A, 1 = B
	flags     int
	owner     int
	pipedOn   *callM // pipelined on this call's answer
	invokeSeq uint64
	returnSeq uint64 // Send / PipelineSend returned
	startSeq  uint64
	acked     bool
	implDone  bool
	implErr   error
	starts    int
	ctx       context.Context
	cancel    context.CancelFunc
	cancelled bool
	ans       *capnp.Answer
	rel       capnp.ReleaseFunc
	ret       *simReturner
	waitingCtx bool
	completed bool
	viaRecv   bool
}

type srvM struct {
	id         int
	maxConc    int
	running    int
	started    []*callM
	userShut   int
	shutBegan  bool
	maxRunning int
}

type run struct {
	s       *simrt.Sched
	srv     [3]*srvM
	clientB *capnp.Client
	clientC *capnp.Client
	calls   map[int]*callM
	nextID  int
	ops     int
	done    int // worker tasks finished
	ntasks  int
	direct  bool // workers call the *server.Server directly and a task shuts it down mid-run
	refsA   int  // client mode: references to server A the harness has not given back yet
}

// dropRefA is called right before a reference to server A is released: the release of the last one
// begins A's shutdown, and from then on cancelling running calls is the server's job, not the janitor's.
func (r *run) dropRefA() {
	if r.direct {
		return
	}
	r.refsA--
	if r.refsA == 0 {
		r.srv[0].shutBegan = true
		if r.srv[0].running > 0 {
			r.s.Probe("last_release_with_running_calls")
		}
	}
}

type shutdowner struct {
	r *run
	m *srvM
}

func (sd shutdowner) Shutdown() {
	r := sd.r
	sd.m.userShut++
	r.s.Logf("server %d user Shutdown (running=%d)", sd.m.id, sd.m.running)
	if sd.m.userShut > 1 {
		r.s.Fail("shutdown_twice", "server.go:(*Server).Shutdown", fmt.Sprintf("server %d: user Shutdown ran %d times", sd.m.id, sd.m.userShut))
	}
	if sd.m.running > 0 {
		r.s.Fail("shutdown_before_calls_returned", "server.go:(*Server).Shutdown", fmt.Sprintf("server %d: user Shutdown ran while %d method implementation(s) were still running", sd.m.id, sd.m.running))
	}
}

func (r *run) impl(srvIdx int) func(ctx context.Context, call *server.Call) error {
	return func(ctx context.Context, call *server.Call) error {
		s := r.s
		m := r.srv[srvIdx]
		args := call.Args()
		id := int(args.Uint64(0))
		cm := r.calls[id]
		if cm == nil {
			s.Fail("unknown_call", "server.go:(*Server).start", fmt.Sprintf("implementation of server %d started with unknown call id %d", srvIdx, id))
			return nil
		}
		flags := int(args.Uint64(8))
		cm.starts++
		cm.startSeq = s.Seq()
		s.Logf("impl srv%d call %d start flags=%b running=%d", srvIdx, id, flags, m.running)
		if cm.starts > 1 {
			s.Fail("started_twice", "server.go:(*Server).start", fmt.Sprintf("call %d was started %d times", id, cm.starts))
		}
		if cm.srv != srvIdx {
			s.Fail("misdelivered", "server.go:(*Server).start", fmt.Sprintf("call %d addressed to server %d started on server %d", id, cm.srv, srvIdx))
		}
		if m.userShut > 0 {
			s.Fail("start_after_shutdown", "server.go:(*Server).start", fmt.Sprintf("call %d started on server %d after its Shutdown had run", id, srvIdx))
		}
		// the previously started call must have acknowledged delivery or returned
		if n := len(m.started); n > 0 {
			prev := m.started[n-1]
			if !prev.acked && !prev.implDone {
				s.Fail("started_before_previous_ack", "server.go:(*Server).start", fmt.Sprintf("call %d started on server %d while the previously started call %d has neither acknowledged delivery nor returned", id, srvIdx, prev.id))
			}
		}
		m.started = append(m.started, cm)
		m.running++
		if m.running > m.maxRunning {
			m.maxRunning = m.running
		}
		if m.running > m.maxConc {
			s.Fail("concurrency_cap", "server.go:(*Server).start", fmt.Sprintf("server %d runs %d implementations at once, MaxConcurrentCalls=%d", srvIdx, m.running, m.maxConc))
		}
		defer func() {
			m.running--
			cm.implDone = true
			s.Logf("impl srv%d call %d return err=%v", srvIdx, id, cm.implErr)
		}()
		if flags&fAckEarly != 0 {
			cm.acked = true
			call.Ack()
		}
		n := s.Choice("impl-yields", 4)
		for i := 0; i < n; i++ {
			simrt.YieldAt("impl")
		}
		if flags&fAckLate != 0 {
			cm.acked = true
			call.Ack()
			simrt.YieldAt("impl-acked")
		}
		if flags&fNoAlloc == 0 {
			res, err := call.AllocResults(capnp.ObjectSize{DataSize: 8, PointerCount: capField(id) + 1})
			if err != nil {
				cm.implErr = fmt.Errorf("impl:%d:alloc:%v", id, err)
				return cm.implErr
			}
			res.SetUint64(0, uint64(id)+1000)
			next := r.clientB
			if srvIdx == 1 {
				next = r.clientC
			}
			if flags&fCap != 0 && next != nil && srvIdx < 2 {
				c := next.AddRef()
				cid := res.Message().AddCap(c)
				res.SetPtr(capField(id), capnp.NewInterface(res.Segment(), cid).ToPtr())
			}
		}
		if flags&fLong != 0 {
			cm.waitingCtx = true
			s.Block("impl-long", func() bool { return ctx.Err() != nil })
			cm.waitingCtx = false
			s.Probe("long_call_cancelled")
			cm.implErr = fmt.Errorf("impl:%d:cancelled", id)
			return cm.implErr
		}
		if flags&fFail != 0 {
			cm.implErr = fmt.Errorf("impl:%d:failed", id)
			return cm.implErr
		}
		return nil
	}
}

type simReturner struct {
	r      *run
	cm     *callM
	rets   int
	err    error
	result capnp.Struct
	allocs int
}

// capField is the pointer field in which the results of call id carry their capability, and on which
// calls are pipelined: field 0, or for one call in four field 257 (an index that needs both bytes of a
// transform step; no draw, so that earlier tapes keep their alignment).
func capField(id int) uint16 {
	if id%4 == 3 {
		return 257
	}
	return 0
}

func (sr *simReturner) AllocResults(sz capnp.ObjectSize) (capnp.Struct, error) {
	sr.allocs++
	_, seg, err := capnp.NewMessage(capnp.SingleSegment(nil))
	if err != nil {
		return capnp.Struct{}, err
	}
	st, err := capnp.NewRootStruct(seg, sz)
	sr.result = st
	return st, err
}

func (sr *simReturner) Return(e error) {
	sr.rets++
	sr.err = e
	sr.r.s.Logf("returner call %d Return(%v) #%d", sr.cm.id, e, sr.rets)
	if sr.rets > 1 {
		sr.r.s.Fail("returned_twice", "server.go:(*Server).start", fmt.Sprintf("Returner.Return for call %d invoked %d times", sr.cm.id, sr.rets))
	}
}

func (r *run) newCall(owner, srv, flags int) *callM {
	r.nextID++
	cm := &callM{id: r.nextID, srv: srv, flags: flags, owner: owner}
	cm.ctx, cm.cancel = context.WithCancel(context.Background())
	r.calls[cm.id] = cm
	return cm
}

func place(cm *callM) func(capnp.Struct) error {
	return func(st capnp.Struct) error {
		st.SetUint64(0, uint64(cm.id))
		st.SetUint64(8, uint64(cm.flags))
		return nil
	}
}

func (r *run) pickFlags() int {
	s := r.s
	switch s.Choice("behaviour", 9) {
	case 8: // never acknowledges and runs until cancelled: everything behind it waits at the gate
		return fLong
	case 0:
		return 0
	case 1:
		return fAckEarly
	case 2:
		return fAckLate
	case 3:
		return fAckEarly | fLong
	case 4:
		return fFail
	case 5:
		return fCap
	case 6:
		return fCap | fAckEarly
	default:
		return fNoAlloc
	}
}

// checkOutcome verifies the completion of a call against what its implementation did.
func (r *run) checkOutcome(cm *callM, st capnp.Struct, err error) {
	s := r.s
	cm.completed = true
	s.Logf("call %d outcome err=%v starts=%d implErr=%v", cm.id, err, cm.starts, cm.implErr)
	switch {
	case cm.starts == 0:
		if err == nil {
			s.Fail("result_without_execution", "server.go:(*Server).start", fmt.Sprintf("call %d completed successfully although its implementation never ran", cm.id))
		} else if !cm.cancelled && !r.srv[cm.srv].shutBegan {
			s.Fail("delivered_never", "server.go:(*Server).start", fmt.Sprintf("call %d on server %d was never delivered (err=%v) although its context was not cancelled and the server was not shut down", cm.id, cm.srv, err))
		}
	case !cm.implDone:
		s.Fail("completed_before_impl_returned", "server.go:(*Server).start", fmt.Sprintf("call %d completed (err=%v) while its implementation is still running", cm.id, err))
	case cm.implErr != nil:
		if err == nil || !strings.Contains(err.Error(), cm.implErr.Error()) {
			s.Fail("wrong_result", "server.go:(*Server).start", fmt.Sprintf("call %d: implementation returned %q but the caller got %v", cm.id, cm.implErr, err))
		}
	default:
		if err != nil {
			s.Fail("wrong_result", "server.go:(*Server).start", fmt.Sprintf("call %d: implementation succeeded but the caller got error %v", cm.id, err))
			return
		}
		if cm.flags&fNoAlloc == 0 {
			if got := st.Uint64(0); got != uint64(cm.id)+1000 {
				s.Fail("wrong_result", "server.go:(*Server).start", fmt.Sprintf("call %d: result token %d, want %d", cm.id, got, cm.id+1000))
			}
		}
	}
}

// expectation for a pipelined call once the call it was pipelined on is over
func (r *run) checkPiped(p *callM, err error, st capnp.Struct) {
	s := r.s
	base := p.pipedOn
	p.completed = true
	s.Logf("piped call %d on %d outcome err=%v starts=%d", p.id, base.id, err, p.starts)
	reachable := base.starts > 0 && base.implDone && base.implErr == nil && base.flags&fCap != 0 && base.flags&fNoAlloc == 0
	if !reachable {
		if p.starts > 0 {
			s.Fail("misdelivered", "answer.go:(*answerQueue).fulfill", fmt.Sprintf("pipelined call %d started on a server although call %d did not return a capability (starts=%d err=%v flags=%b)", p.id, base.id, base.starts, base.implErr, base.flags))
		}
		if err == nil {
			s.Fail("wrong_result", "answer.go:(*answerQueue).reject", fmt.Sprintf("pipelined call %d succeeded although call %d produced no capability", p.id, base.id))
		}
		return
	}
	if p.starts == 0 {
		if err == nil {
			s.Fail("result_without_execution", "answer.go:(*answerQueue).fulfill", fmt.Sprintf("pipelined call %d succeeded without running", p.id))
		}
		if !p.cancelled && !base.cancelled && !r.srv[p.srv].shutBegan {
			s.Fail("delivered_never", "answer.go:(*answerQueue).fulfill", fmt.Sprintf("pipelined call %d on call %d was never delivered to server B (err=%v) although its context was not cancelled", p.id, base.id, err))
		}
		return
	}
	r.checkOutcome(p, st, err)
}

// target is what a worker calls: a *capnp.Client on server A, or (direct
// mode) the *server.Server itself, which another task shuts down at an
// arbitrary moment while calls are being made, are queued behind the
// admission gate or wait for a free slot.
type target struct {
	send    func(context.Context, capnp.Send) (*capnp.Answer, capnp.ReleaseFunc)
	recv    func(context.Context, capnp.Recv) capnp.PipelineCaller
	release func()
	direct  bool
}

func (r *run) workerTask(id int, client target, nops int) {
	s := r.s
	var out []*callM
	released := false
	finish := func(cm *callM) {
		// never wait on a long call (or on anything pipelined on one) without cancelling it first
		for c := cm; c != nil; c = c.pipedOn {
			if c.flags&fLong != 0 && !c.implDone {
				c.cancelled = true
				c.cancel()
			}
		}
		if cm.viaRecv {
			// completion is the Returner
			s.Block("await-return", func() bool { return cm.ret.rets > 0 })
			if cm.pipedOn != nil {
				r.checkPiped(cm, cm.ret.err, cm.ret.result)
			} else {
				r.checkOutcome(cm, cm.ret.result, cm.ret.err)
			}
			if msg := cm.ret.result.Message(); msg != nil {
				msg.Reset(nil) // the caller owns the results message: drop its capabilities
			}
			return
		}
		st, err := cm.ans.Struct()
		if cm.pipedOn != nil {
			r.checkPiped(cm, err, st)
		} else {
			r.checkOutcome(cm, st, err)
		}
		cm.rel()
	}
	for i := 0; i < nops && !s.Failed(); i++ {
		r.ops++
		switch op := s.Choice("op", 8); {
		case op <= 1 && !released: // SendCall on A
			cm := r.newCall(id, 0, r.pickFlags())
			cm.invokeSeq = s.Seq()
			s.Logf("task %d SendCall %d flags=%b", id, cm.id, cm.flags)
			cm.ans, cm.rel = client.send(cm.ctx, capnp.Send{
				Method:    capnp.Method{InterfaceID: ifaceID, MethodID: 0},
				ArgsSize:  capnp.ObjectSize{DataSize: 16},
				PlaceArgs: place(cm),
			})
			cm.returnSeq = s.Seq()
			s.Logf("task %d SendCall %d returned", id, cm.id)
			out = append(out, cm)
		case op == 2 && !released: // RecvCall on A
			cm := r.newCall(id, 0, r.pickFlags()&^fLong)
			cm.viaRecv = true
			cm.ret = &simReturner{r: r, cm: cm}
			_, seg, _ := capnp.NewMessage(capnp.SingleSegment(nil))
			args, _ := capnp.NewRootStruct(seg, capnp.ObjectSize{DataSize: 16})
			place(cm)(args)
			cm.invokeSeq = s.Seq()
			s.Logf("task %d RecvCall %d flags=%b", id, cm.id, cm.flags)
			client.recv(cm.ctx, capnp.Recv{
				Method:      capnp.Method{InterfaceID: ifaceID, MethodID: 0},
				Args:        args,
				ReleaseArgs: func() {},
				Returner:    cm.ret,
			})
			cm.returnSeq = s.Seq()
			out = append(out, cm)
		case op == 3 || op == 4: // pipelined call on an outstanding answer (delivered to B through result pointer 0)
			var cands []*callM
			for _, c := range out {
				if c.srv < 2 && !c.viaRecv && !c.completed {
					cands = append(cands, c)
				}
			}
			if len(cands) == 0 {
				continue
			}
			base := cands[s.Choice("base", len(cands))]
			pf := r.pickFlags() &^ fLong
			if base.srv+1 >= 2 {
				pf &^= fCap
			}
			p := r.newCall(id, base.srv+1, pf)
			p.pipedOn = base
			if base.pipedOn != nil {
				s.Probe("pipelined_on_pipelined_call")
			}
			if !base.implDone {
				s.Probe("pipelined_on_unreturned_answer")
			} else {
				s.Probe("pipelined_on_returned_answer")
			}
			p.invokeSeq = s.Seq()
			s.Logf("task %d PipelineSend %d on answer of %d flags=%b", id, p.id, base.id, p.flags)
			p.ans, p.rel = base.ans.PipelineSend(p.ctx, []capnp.PipelineOp{{Field: capField(base.id)}}, capnp.Send{
				Method:    capnp.Method{InterfaceID: ifaceID, MethodID: 0},
				ArgsSize:  capnp.ObjectSize{DataSize: 16},
				PlaceArgs: place(p),
			})
			p.returnSeq = s.Seq()
			s.Logf("task %d PipelineSend %d returned", id, p.id)
			out = append(out, p)
		case op == 5 && s.Choice("cancel-whose", 3) == 0: // cancel a call another task is still submitting
			// (SendCall / RecvCall block while the call waits for the admission gate or for a free
			// slot: only somebody else can cancel it there)
			var cands []*callM
			for cid := 1; cid <= r.nextID; cid++ {
				if c := r.calls[cid]; c != nil && c.owner != id && c.invokeSeq > 0 && c.returnSeq == 0 && !c.cancelled && c.pipedOn == nil {
					cands = append(cands, c)
				}
			}
			if len(cands) > 0 {
				c := cands[s.Choice("cancel-submitting", len(cands))]
				c.cancelled = true
				c.cancel()
				s.Fault("ctx_cancel_while_submitting")
			}
		case op == 5: // cancel the context of an outstanding call
			if len(out) > 0 {
				cm := out[s.Choice("cancel-which", len(out))]
				if !cm.completed {
					cm.cancelled = true
					cm.cancel()
					s.Fault("ctx_cancel")
				}
			}
		case op == 6: // wait for an outstanding call
			if len(out) > 0 {
				k := s.Choice("finish-which", len(out))
				cm := out[k]
				// pipelined calls must be finished after their base is known; finishing order is free otherwise
				out = append(out[:k], out[k+1:]...)
				finish(cm)
			}
		case op == 7 && !released && !client.direct: // release our client early
			if s.Choice("release-early", 3) == 0 {
				released = true
				s.Logf("task %d releases its client", id)
				client.release()
			}
		}
	}
	for _, cm := range out {
		if s.Failed() {
			return
		}
		if !released && !client.direct && s.Choice("release-before-drain", 4) == 0 {
			released = true
			s.Logf("task %d releases its client (before draining)", id)
			client.release()
		}
		finish(cm)
	}
	if !released && !s.Failed() {
		s.Logf("task %d releases its client", id)
		client.release()
	}
	r.done++
}

func (Engine) Run(t *testing.T, tape *simrt.Tape, opt worker.Options) *worker.Outcome {
	r := &run{calls: map[int]*callM{}}
	body := func(s *simrt.Sched) {
		r.s = s
		pol := &server.Policy{MaxConcurrentCalls: 1 + s.Choice("maxconc", 3), AnswerQueueSize: 1 + s.Choice("aqsize", 3)}
		for i := 0; i < 3; i++ {
			r.srv[i] = &srvM{id: i, maxConc: pol.MaxConcurrentCalls}
		}
		mk := func(i int) *server.Server {
			return server.New([]server.Method{{Method: capnp.Method{InterfaceID: ifaceID, MethodID: 0}, Impl: r.impl(i)}}, nil, shutdowner{r: r, m: r.srv[i]}, pol)
		}
		srvA := mk(0)
		rootA := capnp.NewClient(srvA)
		r.clientB = capnp.NewClient(mk(1))
		r.clientC = capnp.NewClient(mk(2))
		r.ntasks = 1 + s.Choice("ntasks", 4)
		r.refsA = r.ntasks + 1
		totalOps := 0
		for i := 0; i < r.ntasks; i++ {
			i := i
			c := rootA.AddRef()
			nops := 2 + s.Choice("nops", 8)
			totalOps += nops
			s.Spawn(fmt.Sprintf("w%d", i), func() {
				tg := target{send: c.SendCall, recv: c.RecvCall, release: func() { r.dropRefA(); c.Release() }}
				if r.direct {
					// the handle is given back at once: calls go to the Server itself
					c.Release()
					tg = target{send: srvA.Send, recv: srvA.Recv, release: func() {}, direct: true}
				}
				r.workerTask(i, tg, nops)
			})
		}
		// (the mode is drawn here, before the first schedule point, so that
		// tapes recorded before direct mode existed keep their meaning: 0 and
		// 1 are the two client-mode variants)
		mode := s.Choice("root-release-early", 4)
		r.direct = mode >= 2
		shutDone := !r.direct
		if r.direct {
			s.Probe("direct_mode")
			k := s.Choice("shutdown-after-ops", totalOps+1)
			s.Spawn("shutter", func() {
				s.Block("shutter", func() bool { return r.ops >= k || r.done == r.ntasks })
				for i, n := 0, s.Choice("shutter-yields", 6); i < n; i++ {
					simrt.YieldAt("shutter")
				}
				m := r.srv[0]
				if m.running > 0 {
					s.Probe("shutdown_with_running_calls")
				}
				if m.running == m.maxConc {
					s.Probe("shutdown_with_all_slots_busy")
				}
				m.shutBegan = true
				s.Fault("direct_shutdown")
				s.Logf("shutter: Server.Shutdown (running=%d)", m.running)
				srvA.Shutdown()
				s.Logf("shutter: Server.Shutdown returned (running=%d userShut=%d)", m.running, m.userShut)
				if m.running != 0 {
					s.Fail("shutdown_returned_early", "server.go:(*Server).Shutdown", fmt.Sprintf("Server.Shutdown returned while %d implementation(s) are still running", m.running))
				}
				if m.userShut != 1 {
					s.Fail("shutdown_count", "server.go:(*Server).Shutdown", fmt.Sprintf("Server.Shutdown returned and the user's Shutdown ran %d times (want 1)", m.userShut))
				}
				shutDone = true
			})
		}
		if mode == 0 {
			simrt.YieldAt("main")
			r.dropRefA()
			rootA.Release()
			rootA = nil
		}
		s.Block("workers-done", func() bool { return r.done == r.ntasks && shutDone })
		if s.Failed() {
			return
		}
		if rootA != nil && !r.direct {
			r.dropRefA()
			rootA.Release()
		}
		// B may still be referenced by result messages that were released; drop our reference last
		cb, cc := r.clientB, r.clientC
		r.clientB, r.clientC = nil, nil
		r.srv[1].shutBegan = true
		r.srv[2].shutBegan = true
		cb.Release()
		cc.Release()
	}
	final := func(s *simrt.Sched) {
		for i, m := range r.srv {
			if m.userShut != 1 {
				s.Fail("shutdown_count", "server.go:(*Server).Shutdown", fmt.Sprintf("server %d: user Shutdown ran %d times after all references were released (want 1)", i, m.userShut))
			}
			if m.running != 0 {
				s.Fail("impl_still_running", "server.go:(*Server).Shutdown", fmt.Sprintf("server %d: %d implementation(s) still running at the end", i, m.running))
			}
		}
		for _, cm := range r.calls {
			if !cm.completed {
				s.Fail("call_not_completed", "server.go:(*Server).start", fmt.Sprintf("call %d never completed", cm.id))
			}
		}
		// ordering over the recorded history
		r.checkOrder(s)
	}
	onIdle := func(s *simrt.Sched) bool {
		// would-be deadlock: callers can always cancel.  Cancel one long-running
		// implementation's context (only those), oldest first.
		for id := 1; id <= r.nextID; id++ {
			cm := r.calls[id]
			if cm != nil && cm.waitingCtx && !cm.cancelled && !r.srv[cm.srv].shutBegan {
				// (once a server's shutdown has begun, cancelling its running calls is the server's job)
				cm.cancelled = true
				cm.cancel()
				s.Fault("janitor_cancel")
				return true
			}
		}
		return false
	}
	res := simrt.Run(t, simrt.Config{Tape: tape, MaxSteps: 10000, Trace: opt.Trace, OnIdle: onIdle}, body, final)
	oc := &worker.Outcome{Res: res, Verdict: res.Verdict, Ops: r.ops, Probes: res.Probes, Faults: res.Faults}
	oc.NonTrivial = res.Switches > 0
	oc.Key = res.TraceHash
	maxr := 0
	if r.srv[0] != nil {
		maxr = r.srv[0].maxRunning
	}
	oc.Sample = map[string]interface{}{"tasks": r.ntasks, "calls": len(r.calls), "ops": r.ops, "steps": res.Steps, "switches": res.Switches, "max_running_A": maxr}
	if oc.Verdict != nil {
		oc.Pattern = oc.Verdict.Oracle
		if len(res.StuckSites) > 0 {
			oc.Pattern = "stuck:" + strings.Join(res.StuckSites, "|")
		}
	}
	return oc
}

// checkOrder: calls on one target ordered by real time at the API must start in that order.
func (r *run) checkOrder(s *simrt.Sched) {
	var cs []*callM
	for id := 1; id <= r.nextID; id++ {
		if cm := r.calls[id]; cm != nil && cm.starts > 0 {
			cs = append(cs, cm)
		}
	}
	for _, a := range cs {
		for _, b := range cs {
			if a == b || a.returnSeq == 0 || a.returnSeq >= b.invokeSeq {
				continue
			}
			// a's submission returned before b's was invoked
			sameTarget := false
			if a.pipedOn == nil && b.pipedOn == nil && a.srv == b.srv {
				sameTarget = true
			}
			if a.pipedOn != nil && b.pipedOn != nil && a.pipedOn == b.pipedOn {
				sameTarget = true
			}
			if sameTarget && a.startSeq > b.startSeq {
				what := "call"
				if a.pipedOn != nil {
					what = fmt.Sprintf("call pipelined on the answer of %d", a.pipedOn.id)
				}
				s.Fail("order", "server.go:(*Server).start", fmt.Sprintf("%s %d was submitted (and its submission returned) before %d was submitted, but %d started first", what, a.id, b.id, b.id))
				return
			}
		}
	}
}
