package rpcsim

import (
	"fmt"

	capnp "capnproto.org/go/capnp/v3"
	rpccp "capnproto.org/go/capnp/v3/std/capnp/rpc"
)

// The model peer speaks the level-1 protocol from the specification
// (rpc.capnp): it only makes spec-legal moves, chosen by the tape, and keeps
// the bookkeeping the protocol monitor needs.  Names are from the peer's point
// of view: "myQ" are questions the peer asked the Conn, "theirQ" questions the
// Conn asked the peer.

const (
	ifaceID = 0xfaceb00c
	// behaviour flags carried in word 1 of params
	fSlow     = 1 << 0 // implementation acks, then runs until released by the scheduler or cancelled
	fFail     = 1 << 1 // implementation returns an error
	fRetFresh = 1 << 2 // result pointer 0 = a fresh application capability
	fRetParam = 1 << 3 // result pointer 0 = the capability received in params pointer 0
	fRetBoot  = 1 << 4 // result pointer 0 = the bootstrap capability (export reused)
)

type myQuestion struct {
	id         uint32
	kind       string // "bootstrap" | "call"
	token      uint64
	flags      uint64
	target     string // designator, e.g. "imp:3" or "pa:2/0."
	targetApp  int    // application capability the call must reach (-1 unknown)
	sentSeq    uint64
	returned   bool
	returns    int
	retToken   uint64
	retErr     string
	retCaps    []capDesc
	finishSent bool
	releaseRes bool
	paramCaps  []capDesc // descriptors the peer put into the params
	badDesc    bool      // ... the second of which names an export that does not exist: the call must fail
	pa         *myQuestion // promised-answer target (nil for import targets)
	paXform    []uint16
	fwdFor     *theirQuestion // loop-back: this call was sent on behalf of a call the Conn pipelined on one of its questions
	disembargoSent bool       // the peer sent Disembargo(senderLoopback) for result pointer 0 of this question
	echoSeen   bool
	embargoID  uint32
	embargoCap uint32 // the peer's export the embargoed result pointer designates
	embargoSnap []uint64 // tokens of calls pipelined on this question that were in flight when the Disembargo was sent
	paDoneAtSend bool      // the target answer's implementation had already finished when this call was sent
}

type capDesc struct {
	kind string // "none" | "senderHosted" | "receiverHosted" | "senderPromise" | other
	id   uint32
}

type theirQuestion struct {
	id         uint32
	kind       string
	token      uint64
	flags      uint64
	target     string
	paramCaps  []capDesc
	returnSent bool
	finishSeen bool
	releaseRes bool
	retCaps    []capDesc
	retToken   uint64
	retExc     bool
	mustFail   bool // the peer has to answer with an exception
	isPA       bool           // target is a promised answer ...
	paT        *theirQuestion // ... of this question of the Conn (nil if it was not open)
	paXform    []uint16
	fwd        *myQuestion    // loop-back: the call the peer sent to the Conn on behalf of this one
	loopback   *connExport    // the peer's Return named this export of the Conn (receiverHosted) in result pointer loopPath
	loopPath   uint16
}

// connExport is an export of the Conn as seen by the peer.
type connExport struct {
	id    uint32
	refs  int // references the peer holds according to the wire history
	appID int // application capability behind it (-1 unknown)
	dead  bool
}

type peerExport struct {
	id        uint32
	refs      int // references the Conn holds from the peer's point of view: descriptors sent - Release counts received
	delivered int // descriptors in messages the Conn has actually taken from the transport
	released  int // sum of Release counts received
}

type peer struct {
	r       *run
	out     *[]wireMsg // messages to the Conn
	nextQ   uint32
	myQ     map[uint32]*myQuestion
	theirQ  map[uint32]*theirQuestion
	openTheirQ map[uint32]bool // question ids of the Conn that are in use (Finish not yet seen)
	exports map[uint32]*connExport
	mine    map[uint32]*peerExport
	nextExp uint32
	aborted bool   // Abort received from the Conn
	abortReason string
	unimpl  int
	moves   int
	sent    int
	order   []uint32 // myQ ids in send order
	embargoEchoes []uint32
	// echoes of the Conn's Disembargo(senderLoopback) messages that the peer has not sent yet (a peer
	// is free to take its time; until the echo arrives the Conn's embargo stays up and calls queue
	// behind it)
	pendingEcho []pendingEcho
	lazyEcho    bool // echo only when there is nothing else to do
	pendingCaps []uint32 // senderHosted ids placed in the message being built
	theirByToken map[uint64]*theirQuestion
	theirOrder []*theirQuestion // the Conn's calls in arrival order
	pins       map[uint32]int   // exports of the Conn named by a loop-back Return whose question is still open: keep a reference
	nextEmbargo uint32
	myEmbargoes map[uint32]*myQuestion // Disembargo(senderLoopback) ids sent and not yet echoed
	echoed     map[uint64]uint32 // tokens covered by an embargo that has been echoed -> embargo id
}

func newPeer(r *run, out *[]wireMsg) *peer {
	return &peer{r: r, out: out, myQ: map[uint32]*myQuestion{}, theirQ: map[uint32]*theirQuestion{}, openTheirQ: map[uint32]bool{},
		exports: map[uint32]*connExport{}, mine: map[uint32]*peerExport{}, theirByToken: map[uint64]*theirQuestion{},
		pins: map[uint32]int{}, myEmbargoes: map[uint32]*myQuestion{}, echoed: map[uint64]uint32{}}
}

// ---- building messages

func (p *peer) build(f func(m rpccp.Message) error) []byte {
	msg, seg, err := capnp.NewMessage(capnp.MultiSegment(nil))
	if err != nil {
		panic(err)
	}
	rm, err := rpccp.NewRootMessage(seg)
	if err != nil {
		panic(err)
	}
	if err := f(rm); err != nil {
		panic(err)
	}
	b, err := msg.Marshal()
	if err != nil {
		panic(err)
	}
	return b
}

func (p *peer) send(what string, data []byte) {
	p.sent++
	*p.out = append(*p.out, wireMsg{seq: p.r.s.Seq(), data: data, caps: p.pendingCaps})
	p.pendingCaps = nil
	p.r.s.Logf("peer -> conn: %s", what)
}

// delivered is called by the transport when the Conn takes a message: the
// references it carries now count as received by the Conn.
func (p *peer) delivered(wm wireMsg) {
	for _, id := range wm.caps {
		if e := p.mine[id]; e != nil {
			e.delivered++
		}
	}
}

// fillPayload writes content {token, flags, ptr0 = interface 0 if caps} and the cap table.
func fillPayload(pl rpccp.Payload, token, w1 uint64, caps []capDesc) error {
	st, err := capnp.NewStruct(pl.Segment(), capnp.ObjectSize{DataSize: 16, PointerCount: 2})
	if err != nil {
		return err
	}
	st.SetUint64(0, token)
	st.SetUint64(8, w1)
	for i := range caps {
		if i < 2 {
			if err := st.SetPtr(uint16(i), capnp.NewInterface(pl.Segment(), capnp.CapabilityID(i)).ToPtr()); err != nil {
				return err
			}
		}
	}
	if err := pl.SetContent(st.ToPtr()); err != nil {
		return err
	}
	if len(caps) == 0 {
		return nil
	}
	ct, err := pl.NewCapTable(int32(len(caps)))
	if err != nil {
		return err
	}
	for i, c := range caps {
		switch c.kind {
		case "senderHosted":
			ct.At(i).SetSenderHosted(c.id)
		case "receiverHosted":
			ct.At(i).SetReceiverHosted(c.id)
		case "senderPromise":
			ct.At(i).SetSenderPromise(c.id)
		case "thirdParty":
			ct.At(i).Struct.SetUint16(0, 9) // unknown descriptor kind
		default:
			ct.At(i).SetNone()
		}
	}
	return nil
}

func readCaps(pl rpccp.Payload) []capDesc {
	var out []capDesc
	if !pl.HasCapTable() {
		return nil
	}
	ct, err := pl.CapTable()
	if err != nil {
		return nil
	}
	for i := 0; i < ct.Len(); i++ {
		d := ct.At(i)
		switch d.Which() {
		case rpccp.CapDescriptor_Which_none:
			out = append(out, capDesc{kind: "none"})
		case rpccp.CapDescriptor_Which_senderHosted:
			out = append(out, capDesc{kind: "senderHosted", id: d.SenderHosted()})
		case rpccp.CapDescriptor_Which_senderPromise:
			out = append(out, capDesc{kind: "senderPromise", id: d.SenderPromise()})
		case rpccp.CapDescriptor_Which_receiverHosted:
			out = append(out, capDesc{kind: "receiverHosted", id: d.ReceiverHosted()})
		default:
			out = append(out, capDesc{kind: d.Which().String()})
		}
	}
	return out
}

func readContent(pl rpccp.Payload) (token, w1 uint64, ok bool) {
	c, err := pl.Content()
	if err != nil {
		return 0, 0, false
	}
	st := c.Struct()
	if !st.IsValid() {
		return 0, 0, false
	}
	return st.Uint64(0), st.Uint64(8), true
}

// ---- peer moves (spec-legal)

// newCapForConn hands the Conn a capability hosted by the peer: a new export or one it already has.
func (p *peer) newCapForConn() capDesc {
	s := p.r.s
	var ids []uint32
	for id := uint32(0); id < p.nextExp; id++ {
		if e := p.mine[id]; e != nil && e.refs > 0 {
			ids = append(ids, id)
		}
	}
	if len(ids) > 0 && s.Choice("peer-cap-reuse", 2) == 1 {
		id := ids[s.Choice("peer-cap-which", len(ids))]
		p.mine[id].refs++
		p.pendingCaps = append(p.pendingCaps, id)
		return capDesc{kind: "senderHosted", id: id}
	}
	id := p.nextExp
	p.nextExp++
	p.mine[id] = &peerExport{id: id, refs: 1}
	p.pendingCaps = append(p.pendingCaps, id)
	return capDesc{kind: "senderHosted", id: id}
}

func (p *peer) heldExports() []*connExport {
	var out []*connExport
	for id := uint32(0); id < 64; id++ {
		if e := p.exports[id]; e != nil && e.refs > 0 {
			out = append(out, e)
		}
	}
	return out
}

func (p *peer) moveBootstrap() {
	q := &myQuestion{id: p.nextQ, kind: "bootstrap", targetApp: 0}
	p.nextQ++
	p.myQ[q.id] = q
	p.order = append(p.order, q.id)
	q.sentSeq = p.r.s.Seq()
	p.send(fmt.Sprintf("Bootstrap q=%d", q.id), p.build(func(m rpccp.Message) error {
		b, err := m.NewBootstrap()
		if err != nil {
			return err
		}
		b.SetQuestionId(q.id)
		return nil
	}))
}

// moveCall sends a Call to an export the peer holds or to a promised answer of one of its questions.
func (p *peer) moveCall() bool {
	s := p.r.s
	type tgt struct {
		imp   *connExport
		pa    *myQuestion
		xform []uint16
	}
	var ts []tgt
	for _, e := range p.heldExports() {
		ts = append(ts, tgt{imp: e})
	}
	for _, id := range p.order {
		q := p.myQ[id]
		if q.finishSent {
			continue
		}
		if q.kind == "bootstrap" {
			ts = append(ts, tgt{pa: q}) // the bootstrap answer is itself the capability
		} else if q.flags&(fRetFresh|fRetParam|fRetBoot) != 0 && q.flags&fFail == 0 {
			ts = append(ts, tgt{pa: q, xform: []uint16{0}})
		} else if s.Choice("peer-bad-path", 8) == 0 {
			ts = append(ts, tgt{pa: q, xform: []uint16{0}}) // path holds no capability: must fail with an exception
		}
	}
	if len(ts) == 0 {
		return false
	}
	t := ts[s.Choice("peer-call-target", len(ts))]
	q := &myQuestion{id: p.nextQ, kind: "call", token: p.r.newToken(), targetApp: -1}
	p.nextQ++
	fl := s.Choice("peer-call-flags", 8)
	if p.r.capsBias && fl <= 1 {
		fl = 4 + 2*fl // C07: plain calls become calls that return a fresh / the parameter capability
	}
	switch fl {
	case 0, 1:
		q.flags = 0
	case 2:
		q.flags = fSlow
	case 3:
		q.flags = fFail
	case 4:
		q.flags = fRetFresh
	case 5:
		q.flags = fRetBoot
	case 6:
		q.flags = fRetParam
	case 7:
		q.flags = fSlow | fRetFresh
	}
	// parameters may carry capabilities
	pc := s.Choice("peer-param-cap", 5)
	if p.r.capsBias && pc >= 3 {
		pc -= 3 // C07: (almost) every call carries a capability
	}
	switch pc {
	case 0:
		q.paramCaps = []capDesc{p.newCapForConn()}
	case 1:
		if held := p.heldExports(); len(held) > 0 {
			e := held[s.Choice("peer-param-which", len(held))]
			q.paramCaps = []capDesc{{kind: "receiverHosted", id: e.id}}
		}
	case 2:
		q.paramCaps = []capDesc{{kind: "none"}}
	}
	if q.flags&fRetParam != 0 && len(q.paramCaps) == 0 {
		q.flags &^= fRetParam
	}
	if p.r.deferEcho && !p.r.hostile && t.imp != nil && pc == 0 && s.Chance("peer-bad-second-descriptor", 1, 8) {
		// a buggy (not hostile) peer: a good descriptor followed by one that names an export the Conn
		// does not have.  The Conn must answer with an exception - and let go of the reference it was
		// given by the first descriptor, which the end-of-run accounting then sees (Release for it,
		// import table empty).
		q.paramCaps = append(q.paramCaps, capDesc{kind: "receiverHosted", id: 1 << 20})
		q.badDesc = true
		s.Probe("call_with_bad_descriptor_after_good_one")
	}
	if t.imp != nil {
		q.target = fmt.Sprintf("imp:%d", t.imp.id)
		q.targetApp = t.imp.appID
	} else {
		q.target = fmt.Sprintf("pa:%d/%v", t.pa.id, t.xform)
		q.pa = t.pa
		q.paXform = t.xform
		if t.pa.returned {
			p.r.s.Probe("pipelined_on_returned_answer")
		} else {
			p.r.s.Probe("pipelined_on_unreturned_answer")
		}
	}
	var noops []int // positions (0 .. len(xform)) at which a noop step is inserted
	if t.pa != nil {
		for n := s.Choice("peer-noop-ops", 4); n > 1; n-- { // 0,1: none; 2: one; 3: two
			noops = append(noops, s.Choice("peer-noop-at", len(t.xform)+1))
			s.Probe("promised_answer_transform_with_noop")
		}
	}
	p.myQ[q.id] = q
	p.order = append(p.order, q.id)
	q.sentSeq = p.r.s.Seq()
	p.r.callSent(q)
	p.send(fmt.Sprintf("Call q=%d target=%s token=%d flags=%b params=%v noops=%v", q.id, q.target, q.token, q.flags, q.paramCaps, noops), p.build(func(m rpccp.Message) error {
		c, err := m.NewCall()
		if err != nil {
			return err
		}
		c.SetQuestionId(q.id)
		c.SetInterfaceId(ifaceID)
		c.SetMethodId(0)
		tg, err := c.NewTarget()
		if err != nil {
			return err
		}
		if t.imp != nil {
			tg.SetImportedCap(t.imp.id)
		} else {
			pa, err := tg.NewPromisedAnswer()
			if err != nil {
				return err
			}
			pa.SetQuestionId(t.pa.id)
			// a transform may contain noop steps anywhere; they change nothing
			ops, err := pa.NewTransform(int32(len(t.xform) + len(noops)))
			if err != nil {
				return err
			}
			k := 0
			for i, f := range t.xform {
				for _, at := range noops {
					if at == i {
						ops.At(k).SetNoop()
						k++
					}
				}
				ops.At(k).SetGetPointerField(f)
				k++
			}
			for _, at := range noops {
				if at >= len(t.xform) {
					ops.At(k).SetNoop()
					k++
				}
			}
		}
		pl, err := c.NewParams()
		if err != nil {
			return err
		}
		return fillPayload(pl, q.token, q.flags, q.paramCaps)
	}))
	return true
}

func (p *peer) moveFinish() bool {
	s := p.r.s
	var cands []*myQuestion
	for _, id := range p.order {
		if q := p.myQ[id]; !q.finishSent {
			cands = append(cands, q)
		}
	}
	if len(cands) == 0 {
		return false
	}
	q := cands[s.Choice("peer-finish-which", len(cands))]
	p.finish(q, s.Choice("peer-release-result-caps", 2) == 1)
	return true
}

func (p *peer) finish(q *myQuestion, releaseResultCaps bool) {
	if releaseResultCaps && q.returned {
		// only legal while the peer still holds the references the Return gave it
		need := map[uint32]int{}
		for _, c := range q.retCaps {
			if c.kind == "senderHosted" || c.kind == "senderPromise" {
				need[c.id]++
			}
		}
		for id, n := range need {
			if e := p.exports[id]; e == nil || e.refs < n {
				releaseResultCaps = false
			}
		}
	}
	q.finishSent = true
	q.releaseRes = releaseResultCaps
	if !q.returned {
		p.r.s.Probe("finish_before_return")
	}
	if q.returned && releaseResultCaps {
		p.applyReleaseResultCaps(q)
	}
	p.send(fmt.Sprintf("Finish q=%d releaseResultCaps=%v", q.id, releaseResultCaps), p.build(func(m rpccp.Message) error {
		f, err := m.NewFinish()
		if err != nil {
			return err
		}
		f.SetQuestionId(q.id)
		f.SetReleaseResultCaps(releaseResultCaps)
		return nil
	}))
}

// applyReleaseResultCaps: a Finish with releaseResultCaps drops the references the Return gave us.
func (p *peer) applyReleaseResultCaps(q *myQuestion) {
	for _, c := range q.retCaps {
		if c.kind == "senderHosted" || c.kind == "senderPromise" {
			if e := p.exports[c.id]; e != nil {
				e.refs--
				p.r.s.Probe("finish_releases_result_caps")
				p.r.exportRefsChanged(e)
			}
		}
	}
	q.retCaps = nil
}

func (p *peer) moveRelease() bool {
	s := p.r.s
	var held []*connExport
	for _, e := range p.heldExports() {
		if e.refs > p.pinned(e.id) {
			held = append(held, e)
		}
	}
	if len(held) == 0 {
		return false
	}
	e := held[s.Choice("peer-release-which", len(held))]
	n := 1 + s.Choice("peer-release-count", e.refs-p.pinned(e.id))
	e.refs -= n
	p.r.exportRefsChanged(e)
	p.send(fmt.Sprintf("Release id=%d count=%d (left %d)", e.id, n, e.refs), p.build(func(m rpccp.Message) error {
		rl, err := m.NewRelease()
		if err != nil {
			return err
		}
		rl.SetId(e.id)
		rl.SetReferenceCount(uint32(n))
		return nil
	}))
	return true
}

// moveReturn answers one of the Conn's questions.
func (p *peer) moveReturn() bool {
	s := p.r.s
	var cands []*theirQuestion
	for id := uint32(0); id < 256; id++ {
		if q := p.theirQ[id]; q != nil && !q.returnSent && q.fwd == nil {
			cands = append(cands, q)
		}
	}
	if len(cands) == 0 {
		return false
	}
	q := cands[s.Choice("peer-return-which", len(cands))]
	q.returnSent = true
	kind := s.Choice("peer-return-kind", 6)
	if q.kind == "bootstrap" {
		kind = 1
	}
	if q.mustFail {
		kind = 0
	}
	releaseParamCaps := s.Choice("peer-release-param-caps", 2) == 1
	if releaseParamCaps {
		need := map[uint32]int{}
		for _, c := range q.paramCaps {
			if c.kind == "senderHosted" || c.kind == "senderPromise" {
				need[c.id]++
			}
		}
		for id, n := range need {
			if e := p.exports[id]; e == nil || e.refs < n {
				releaseParamCaps = false // already released explicitly
			}
		}
	}
	if releaseParamCaps {
		// the peer gives up the references it received in the params
		for _, c := range q.paramCaps {
			if c.kind == "senderHosted" || c.kind == "senderPromise" {
				if e := p.exports[c.id]; e != nil {
					e.refs--
					p.r.s.Probe("return_releases_param_caps")
					p.r.exportRefsChanged(e)
				}
			}
		}
	}
	switch {
	case kind == 0: // exception
		q.retExc = true
		p.send(fmt.Sprintf("Return a=%d exception", q.id), p.build(func(m rpccp.Message) error {
			rt, err := m.NewReturn()
			if err != nil {
				return err
			}
			rt.SetAnswerId(q.id)
			rt.SetReleaseParamCaps(releaseParamCaps)
			e, err := rt.NewException()
			if err != nil {
				return err
			}
			e.SetType(rpccp.Exception_Type_failed)
			return e.SetReason(fmt.Sprintf("peer-exception:%d", q.token))
		}))
	default:
		q.retToken = q.token + 2000
		if kind == 1 || kind == 2 {
			q.retCaps = []capDesc{p.newCapForConn()}
		}
		if held := p.heldExports(); kind == 3 && q.kind == "call" && len(held) > 0 && p.openTheirQ[q.id] && p.theirQ[q.id] == q {
			// loop-back: the result is a capability the Conn itself hosts.  Calls the Conn pipelined on
			// this question are reflected to that export (below, and on arrival from now on) and the
			// Conn has to embargo its own later calls until its Disembargo comes back.
			e := held[s.Choice("peer-loopback-which", len(held))]
			q.loopback = e
			p.pins[e.id]++
			q.retCaps = []capDesc{{kind: "receiverHosted", id: e.id}}
			s.Probe("return_names_conn_export")
			if p.r.deferEcho && s.Chance("loopback-second-pointer", 1, 2) {
				// pointer 0 holds a capability of the peer, pointer 1 the Conn's own export: calls
				// pipelined through pointer 0 stay with the peer, those through pointer 1 are reflected
				q.loopPath = 1
				q.retCaps = []capDesc{p.newCapForConn(), {kind: "receiverHosted", id: e.id}}
				s.Probe("return_names_conn_export_in_second_pointer")
			}
		}
		if q.finishSeen && q.releaseRes {
			// the Conn already finished this question with releaseResultCaps: capabilities in a late
			// Return count as released at once
			for _, cd := range q.retCaps {
				if e := p.mine[cd.id]; e != nil {
					e.refs--
				}
			}
			p.r.s.Probe("return_after_finish_with_release_result_caps")
		}
		p.r.s.Logf("peer returns a=%d token=%d caps=%v", q.id, q.retToken, q.retCaps)
		p.send(fmt.Sprintf("Return a=%d results token=%d caps=%v", q.id, q.retToken, q.retCaps), p.build(func(m rpccp.Message) error {
			rt, err := m.NewReturn()
			if err != nil {
				return err
			}
			rt.SetAnswerId(q.id)
			rt.SetReleaseParamCaps(releaseParamCaps)
			pl, err := rt.NewResults()
			if err != nil {
				return err
			}
			if q.kind == "bootstrap" {
				// the bootstrap result is the capability itself
				if err := pl.SetContent(capnp.NewInterface(pl.Segment(), 0).ToPtr()); err != nil {
					return err
				}
				ct, err := pl.NewCapTable(1)
				if err != nil {
					return err
				}
				ct.At(0).SetSenderHosted(q.retCaps[0].id)
				return nil
			}
			return fillPayload(pl, q.retToken, 0, q.retCaps)
		}))
		if q.loopback != nil {
			for _, tq := range p.theirOrder {
				if tq.isPA && tq.paT == q && !tq.returnSent && tq.fwd == nil && !tq.mustFail && p.onLoopPath(tq, q) {
					p.forward(tq, q)
				}
			}
		}
	}
	return true
}

// onLoopPath: tq is pipelined on t through the pointer in which t's results name the Conn's own
// export.  (When that is pointer 1, calls through pointer 0 address the peer's own capability and
// are answered by the peer like any other call; with the loop-back in pointer 0 every path is
// handed to forward, which fails the calls whose path holds no capability - as before.)
func (p *peer) onLoopPath(tq, t *theirQuestion) bool {
	return t.loopPath == 0 || (len(tq.paXform) == 1 && tq.paXform[0] == t.loopPath)
}

func (p *peer) pinned(id uint32) int {
	if p.pins[id] > 0 {
		return 1
	}
	return 0
}

// forward reflects a call the Conn pipelined on question t (which the peer answered with one of the
// Conn's own exports) to that export; the Return is relayed when it arrives.
func (p *peer) forward(tq, t *theirQuestion) {
	s := p.r.s
	e := t.loopback
	if len(tq.paXform) != 1 || tq.paXform[0] != t.loopPath || e.refs <= 0 {
		tq.mustFail = true // the path holds no capability
		return
	}
	fq := &myQuestion{id: p.nextQ, kind: "call", token: tq.token, flags: tq.flags, targetApp: e.appID, fwdFor: tq}
	p.nextQ++
	fq.target = fmt.Sprintf("imp:%d", e.id)
	tq.fwd = fq
	p.myQ[fq.id] = fq
	p.order = append(p.order, fq.id)
	fq.sentSeq = s.Seq()
	p.r.callSent(fq)
	s.Probe("pipelined_call_reflected_to_conn_export")
	p.send(fmt.Sprintf("Call q=%d target=%s token=%d (reflected: the Conn's question %d was pipelined on its question %d)", fq.id, fq.target, fq.token, tq.id, t.id), p.build(func(m rpccp.Message) error {
		c, err := m.NewCall()
		if err != nil {
			return err
		}
		c.SetQuestionId(fq.id)
		c.SetInterfaceId(ifaceID)
		c.SetMethodId(0)
		tg, err := c.NewTarget()
		if err != nil {
			return err
		}
		tg.SetImportedCap(e.id)
		pl, err := c.NewParams()
		if err != nil {
			return err
		}
		return fillPayload(pl, fq.token, fq.flags, nil)
	}))
}

// relay answers the Conn's pipelined question with what the Conn itself answered to the reflected call.
func (p *peer) relay(fq *myQuestion) {
	tq := fq.fwdFor
	if tq.returnSent {
		return
	}
	tq.returnSent = true
	p.r.s.Probe("reflected_call_return_relayed")
	if fq.retErr != "" {
		tq.retExc = true
		p.send(fmt.Sprintf("Return a=%d exception (relayed)", tq.id), p.build(func(m rpccp.Message) error {
			rt, err := m.NewReturn()
			if err != nil {
				return err
			}
			rt.SetAnswerId(tq.id)
			rt.SetReleaseParamCaps(false)
			e, err := rt.NewException()
			if err != nil {
				return err
			}
			e.SetType(rpccp.Exception_Type_failed)
			return e.SetReason(fmt.Sprintf("peer-exception:%d relayed: %s", tq.token, fq.retErr))
		}))
		return
	}
	tq.retToken = fq.retToken
	p.send(fmt.Sprintf("Return a=%d results token=%d (relayed)", tq.id, tq.retToken), p.build(func(m rpccp.Message) error {
		rt, err := m.NewReturn()
		if err != nil {
			return err
		}
		rt.SetAnswerId(tq.id)
		rt.SetReleaseParamCaps(false)
		pl, err := rt.NewResults()
		if err != nil {
			return err
		}
		return fillPayload(pl, tq.retToken, 0, nil)
	}))
}

func (p *peer) forwardPending() bool {
	for _, tq := range p.theirOrder {
		if tq.fwd != nil && !tq.returnSent {
			return true
		}
	}
	return false
}

// moveDisembargo: the peer pipelined on one of its questions and the Conn answered with a capability
// the peer itself hosts; the peer asks for the loop-back signal.  When the echo arrives every pipelined
// call sent before must already have been reflected (or answered).
func (p *peer) moveDisembargo() bool {
	s := p.r.s
	var cands []*myQuestion
	for _, id := range p.order {
		q := p.myQ[id]
		if q.kind == "call" && q.returned && q.retErr == "" && !q.finishSent && !q.disembargoSent && len(q.retCaps) > 0 && q.retCaps[0].kind == "receiverHosted" {
			if e := p.mine[q.retCaps[0].id]; e != nil {
				cands = append(cands, q)
			}
		}
	}
	if len(cands) == 0 {
		return false
	}
	q := cands[s.Choice("peer-disembargo-which", len(cands))]
	q.disembargoSent = true
	q.embargoID = p.nextEmbargo
	q.embargoCap = q.retCaps[0].id
	p.nextEmbargo++
	for _, id := range p.order {
		if c := p.myQ[id]; c.pa == q && len(c.paXform) == 1 && c.paXform[0] == 0 && !c.returned {
			q.embargoSnap = append(q.embargoSnap, c.token)
		}
	}
	p.myEmbargoes[q.embargoID] = q
	s.Probe("disembargo_sender_loopback_sent")
	if len(q.embargoSnap) > 0 {
		s.Probe("disembargo_sent_with_pipelined_calls_in_flight")
	}
	p.send(fmt.Sprintf("Disembargo senderLoopback id=%d target=pa:%d/[0] in-flight=%v", q.embargoID, q.id, q.embargoSnap), p.build(func(m rpccp.Message) error {
		d, err := m.NewDisembargo()
		if err != nil {
			return err
		}
		tg, err := d.NewTarget()
		if err != nil {
			return err
		}
		pa, err := tg.NewPromisedAnswer()
		if err != nil {
			return err
		}
		pa.SetQuestionId(q.id)
		ops, err := pa.NewTransform(1)
		if err != nil {
			return err
		}
		ops.At(0).SetGetPointerField(0)
		d.Context().SetSenderLoopback(q.embargoID)
		return nil
	}))
	return true
}

// ---- processing the Conn's outbound messages (in order)

func (p *peer) process(data []byte) {
	r := p.r
	s := r.s
	msg, err := capnp.Unmarshal(data)
	if err != nil {
		p.r.mfail("malformed_outbound", "rpc.go:sendMessage", fmt.Sprintf("the Conn sent bytes that do not unmarshal: %v", err))
		return
	}
	m, err := rpccp.ReadRootMessage(msg)
	if err != nil {
		p.r.mfail("malformed_outbound", "rpc.go:sendMessage", fmt.Sprintf("the Conn sent a message without a root: %v", err))
		return
	}
	switch m.Which() {
	case rpccp.Message_Which_bootstrap:
		b, _ := m.Bootstrap()
		id := b.QuestionId()
		s.Logf("conn -> peer: Bootstrap q=%d", id)
		p.openQuestion(id, &theirQuestion{id: id, kind: "bootstrap"})
	case rpccp.Message_Which_call:
		c, _ := m.Call()
		id := c.QuestionId()
		q := &theirQuestion{id: id, kind: "call"}
		if pl, err := c.Params(); err == nil {
			q.token, q.flags, _ = readContent(pl)
			q.paramCaps = readCaps(pl)
		}
		tg, _ := c.Target()
		switch tg.Which() {
		case rpccp.MessageTarget_Which_importedCap:
			q.target = fmt.Sprintf("imp:%d", tg.ImportedCap())
			if e := p.mine[tg.ImportedCap()]; e == nil || e.refs <= 0 {
				p.r.mfail("call_on_released_import", "import.go:(*importClient).Send", fmt.Sprintf("the Conn called import %d which it does not hold (refs=%v)", tg.ImportedCap(), e))
				q.mustFail = true // (only reached when the monitor is off: the peer still has to answer)
			}
		case rpccp.MessageTarget_Which_promisedAnswer:
			pa, _ := tg.PromisedAnswer()
			q.target = fmt.Sprintf("pa:%d", pa.QuestionId())
			q.isPA = true
			if ops, err := pa.Transform(); err == nil {
				for i := 0; i < ops.Len(); i++ {
					if ops.At(i).Which() == rpccp.PromisedAnswer_Op_Which_getPointerField {
						q.paXform = append(q.paXform, ops.At(i).GetPointerField())
					}
				}
			}
			if p.openTheirQ[pa.QuestionId()] {
				q.paT = p.theirQ[pa.QuestionId()]
			}
			if !p.openTheirQ[pa.QuestionId()] {
				// use after Finish: a protocol error - a real peer (this library included) aborts the
				// connection, taking every other call with it
				s.Probe("conn_called_promised_answer_after_its_finish")
				q.mustFail = true
				p.r.mfail("call_on_finished_question", "question.go:(*question).PipelineSend", fmt.Sprintf("the Conn sent Call (question %d, token %d) addressed to the promised answer of its question %d after sending that question's Finish", id, q.token, pa.QuestionId()))
			}
		}
		s.Logf("conn -> peer: Call q=%d target=%s token=%d params=%v", id, q.target, q.token, q.paramCaps)
		// descriptors in params: senderHosted = exports of the Conn handed to us
		for _, cd := range q.paramCaps {
			p.noteConnDescriptor(cd, -1)
		}
		p.openQuestion(id, q)
		p.theirByToken[q.token] = q
		p.theirOrder = append(p.theirOrder, q)
		r.localCallArrived(q)
		if eid, late := p.echoed[q.token]; late && q.token != 0 {
			p.r.mfail("embargo_broken", "rpc.go:(*Conn).handleDisembargo", fmt.Sprintf("the Conn reflected the pipelined call with token %d after it had echoed Disembargo %d, which was sent after that call", q.token, eid))
			return
		}
		if q.isPA && q.paT != nil && q.paT.loopback != nil && !q.mustFail && p.onLoopPath(q, q.paT) {
			p.forward(q, q.paT)
		}
	case rpccp.Message_Which_return:
		rt, _ := m.Return()
		id := rt.AnswerId()
		q := p.myQ[id]
		if q == nil {
			p.r.mfail("return_unknown", "answer.go:(*answer).sendReturn", fmt.Sprintf("the Conn sent a Return for answer id %d which no outstanding question has", id))
			return
		}
		q.returns++
		if q.returns > 1 {
			p.r.mfail("return_duplicate", "answer.go:(*answer).sendReturn", fmt.Sprintf("the Conn sent %d Returns for question %d", q.returns, id))
			return
		}
		if q.finishSent && q.returned {
			p.r.mfail("return_duplicate", "answer.go:(*answer).sendReturn", fmt.Sprintf("Return for question %d after it was finished and returned", id))
			return
		}
		q.returned = true
		switch rt.Which() {
		case rpccp.Return_Which_results:
			pl, err := rt.Results()
			if err != nil {
				p.r.mfail("return_wrong_content", "answer.go:(*answer).sendReturn", fmt.Sprintf("Return for question %d has unreadable results: %v", id, err))
				return
			}
			q.retCaps = readCaps(pl)
			var appOfCap int64 = -1
			if q.kind == "call" {
				var w1 uint64
				q.retToken, w1, _ = readContent(pl)
				appOfCap = int64(w1) - 1
			} else {
				appOfCap = 0
			}
			s.Logf("conn -> peer: Return a=%d results token=%d caps=%v", id, q.retToken, q.retCaps)
			for i, cd := range q.retCaps {
				app := -1
				if i == 0 {
					app = int(appOfCap)
				}
				p.noteConnDescriptor(cd, app)
			}
			r.peerGotReturn(q)
			if q.fwdFor != nil {
				p.relay(q)
			}
			if r.hostile && q.finishSent && q.releaseRes && s.Choice("h-double-release", 2) == 0 {
				// a buggy peer: it had finished the question with releaseResultCaps and now releases
				// the capabilities of the late Return once more, explicitly and at once (the Conn
				// may still be busy tearing the answer down)
				for _, cd := range q.retCaps {
					if cd.kind == "senderHosted" {
						s.Fault("hostile_message")
						s.Probe("hostile:double_release_of_result_caps")
						p.send(fmt.Sprintf("Release id=%d count=1 (again: already released through Finish)", cd.id), p.build(releaseMsg(cd.id, 1)))
					}
				}
			}
			if q.finishSent && q.releaseRes {
				p.applyReleaseResultCaps(q)
			}
			return
		case rpccp.Return_Which_exception:
			e, _ := rt.Exception()
			q.retErr, _ = e.Reason()
			if q.retErr == "" {
				q.retErr = "(empty reason)"
			}
			s.Logf("conn -> peer: Return a=%d exception %q", id, q.retErr)
		case rpccp.Return_Which_canceled:
			q.retErr = "canceled"
			if !q.finishSent {
				p.r.mfail("return_wrong_content", "answer.go:(*answer).sendReturn", fmt.Sprintf("Return(canceled) for question %d which the peer never finished", id))
				return
			}
		default:
			q.retErr = "other:" + rt.Which().String()
		}
		r.peerGotReturn(q)
		if q.fwdFor != nil {
			p.relay(q)
		}
	case rpccp.Message_Which_finish:
		f, _ := m.Finish()
		id := f.QuestionId()
		s.Logf("conn -> peer: Finish q=%d releaseResultCaps=%v", id, f.ReleaseResultCaps())
		q := p.theirQ[id]
		if q == nil || !p.openTheirQ[id] {
			p.r.mfail("finish_unknown", "rpc.go:(*Conn).handleReturn", fmt.Sprintf("the Conn sent Finish for question %d which is not open", id))
			return
		}
		q.finishSeen = true
		q.releaseRes = f.ReleaseResultCaps()
		delete(p.openTheirQ, id)
		if q.loopback != nil && p.pins[q.loopback.id] > 0 {
			p.pins[q.loopback.id]--
		}
		if q.releaseRes {
			// the Conn gives up the capabilities we returned
			for _, cd := range q.retCaps {
				if cd.kind == "senderHosted" {
					if e := p.mine[cd.id]; e != nil {
						e.refs--
					}
				}
			}
			q.retCaps = nil
		}
		if !q.returnSent && s.Choice("peer-return-canceled", 2) == 0 {
			// a finished, unanswered question may be answered "canceled"
			q.returnSent = true
			p.send(fmt.Sprintf("Return a=%d canceled", id), p.build(func(m rpccp.Message) error {
				rt, err := m.NewReturn()
				if err != nil {
					return err
				}
				rt.SetAnswerId(id)
				rt.SetReleaseParamCaps(false) // the schema default is true
				rt.SetCanceled()
				return nil
			}))
		}
	case rpccp.Message_Which_release:
		rl, _ := m.Release()
		id, n := rl.Id(), int(rl.ReferenceCount())
		s.Logf("conn -> peer: Release id=%d count=%d", id, n)
		e := p.mine[id]
		if e != nil && n >= 1 && n < e.delivered-e.released {
			// fewer than received: legitimate when further references were delivered after the import's
			// last local reference was dropped (they belong to a new incarnation and are released later);
			// the quiescent check requires the totals to match
			s.Probe("release_covers_part_of_received_refs")
		}
		if e == nil || n == 0 || n > e.delivered-e.released {
			have := 0
			if e != nil {
				have = e.delivered - e.released
			}
			p.r.mfail("release_count_mismatch", "import.go:(*importClient).Shutdown", fmt.Sprintf("the Conn sent Release(id=%d, count=%d) but it has received %d not yet released reference(s) to that import: a Release may never exceed the references received", id, n, have))
			return
		}
		e.released += n
		e.refs -= n
	case rpccp.Message_Which_abort:
		a, _ := m.Abort()
		p.aborted = true
		p.abortReason, _ = a.Reason()
		s.Logf("conn -> peer: Abort %q", p.abortReason)
	case rpccp.Message_Which_unimplemented:
		p.unimpl++
		s.Logf("conn -> peer: Unimplemented")
	case rpccp.Message_Which_disembargo:
		d, _ := m.Disembargo()
		p.handleDisembargo(d)
	default:
		s.Logf("conn -> peer: %v", m.Which())
	}
}

func (p *peer) openQuestion(id uint32, q *theirQuestion) {
	if p.openTheirQ[id] {
		p.r.mfail("question_id_reuse", "rpc.go:(*Conn).handleReturn", fmt.Sprintf("the Conn reused question id %d before sending the Finish of its previous use", id))
		return
	}
	if old := p.theirQ[id]; old != nil {
		p.r.s.Probe("question_id_reused_after_finish")
		if !old.returnSent {
			p.r.s.Probe("question_id_reused_before_return_received")
		}
	}
	p.openTheirQ[id] = true
	p.theirQ[id] = q
}

// noteConnDescriptor: the Conn sent us a descriptor; senderHosted means one more reference on its export.
func (p *peer) noteConnDescriptor(cd capDesc, app int) {
	switch cd.kind {
	case "senderHosted", "senderPromise":
		e := p.exports[cd.id]
		if e == nil || e.dead {
			e = &connExport{id: cd.id, appID: -1}
			p.exports[cd.id] = e
		}
		e.refs++
		if app >= 0 {
			if e.appID >= 0 && e.appID != app {
				p.r.mfail("export_identity", "export.go:(*Conn).sendCap", fmt.Sprintf("export id %d designates application capability %d and now %d while the peer still holds references", cd.id, e.appID, app))
				return
			}
			e.appID = app
		}
		p.r.exportRefsChanged(e)
		if e.refs > 1 {
			p.r.s.Probe("export_reused_in_descriptor")
		}
	case "receiverHosted":
		if e := p.mine[cd.id]; e == nil || e.refs <= 0 {
			// The Conn released the import before the message that names it went out (it drops the
			// parameter references right after building the call).  Outside the listed properties:
			// recorded as an observation, the peer treats the descriptor as unusable.
			p.r.s.Probe("conn_named_released_import_in_descriptor")
		}
	}
}

type pendingEcho struct{ id, exp uint32 }

func (p *peer) sendEcho(id, expID uint32) {
	p.send(fmt.Sprintf("Disembargo receiverLoopback id=%d", id), p.build(func(m rpccp.Message) error {
		dd, err := m.NewDisembargo()
		if err != nil {
			return err
		}
		t2, err := dd.NewTarget()
		if err != nil {
			return err
		}
		t2.SetImportedCap(expID)
		dd.Context().SetReceiverLoopback(id)
		return nil
	}))
}

// moveEcho sends the oldest echo the peer still owes.
func (p *peer) moveEcho() {
	e := p.pendingEcho[0]
	p.pendingEcho = p.pendingEcho[1:]
	p.r.s.Probe("disembargo_echo_sent_late")
	p.sendEcho(e.id, e.exp)
}

func (p *peer) handleDisembargo(d rpccp.Disembargo) {
	s := p.r.s
	switch d.Context().Which() {
	case rpccp.Disembargo_context_Which_senderLoopback:
		id := d.Context().SenderLoopback()
		s.Probe("disembargo_sender_loopback_received")
		tg, _ := d.Target()
		if tg.Which() != rpccp.MessageTarget_Which_promisedAnswer {
			p.r.mfail("disembargo_target", "rpc.go:(*Conn).handleReturn", "senderLoopback disembargo does not target a promised answer")
			return
		}
		pa, _ := tg.PromisedAnswer()
		t := p.theirQ[pa.QuestionId()]
		if t == nil || t.loopback == nil {
			p.r.mfail("disembargo_target", "rpc.go:(*Conn).handleReturn", fmt.Sprintf("senderLoopback disembargo targets question %d, which the peer did not answer with one of the Conn's own capabilities", pa.QuestionId()))
			return
		}
		if ops, err := pa.Transform(); err == nil {
			var path []uint16
			for i := 0; i < ops.Len(); i++ {
				if ops.At(i).Which() == rpccp.PromisedAnswer_Op_Which_getPointerField {
					path = append(path, ops.At(i).GetPointerField())
				}
			}
			if len(path) != 1 || path[0] != t.loopPath {
				p.r.mfail("disembargo_target", "rpc.go:(*Conn).handleReturn", fmt.Sprintf("senderLoopback disembargo for question %d addresses result path %v, but the Conn's own capability is in pointer %d", pa.QuestionId(), path, t.loopPath))
				return
			}
		}
		s.Logf("conn -> peer: Disembargo senderLoopback id=%d target=pa:%d", id, pa.QuestionId())
		expID := t.loopback.id
		// echo (our reflected calls, if any, were sent before)
		if p.r.deferEcho {
			p.pendingEcho = append(p.pendingEcho, pendingEcho{id, expID})
			return
		}
		p.sendEcho(id, expID)
	case rpccp.Disembargo_context_Which_receiverLoopback:
		id := d.Context().ReceiverLoopback()
		s.Logf("conn -> peer: Disembargo receiverLoopback id=%d", id)
		q := p.myEmbargoes[id]
		if q == nil {
			p.r.mfail("disembargo_echo_unknown", "rpc.go:(*Conn).handleDisembargo", fmt.Sprintf("the Conn echoed Disembargo id %d which the peer never sent (or which was already echoed)", id))
			return
		}
		delete(p.myEmbargoes, id)
		q.echoSeen = true
		s.Probe("disembargo_echo_received")
		tg, _ := d.Target()
		if tg.Which() != rpccp.MessageTarget_Which_importedCap || tg.ImportedCap() != q.embargoCap {
			p.r.mfail("disembargo_echo_target", "rpc.go:(*Conn).handleDisembargo", fmt.Sprintf("the echo of Disembargo %d targets %v/%d, want importedCap %d", id, tg.Which(), tg.ImportedCap(), q.embargoCap))
			return
		}
		for _, tok := range q.embargoSnap {
			var mq *myQuestion
			for _, qid := range p.order {
				if c := p.myQ[qid]; c.token == tok && c.fwdFor == nil {
					mq = c
				}
			}
			if p.theirByToken[tok] == nil && (mq == nil || (!mq.returned && !mq.finishSent)) { // (a call the peer has finished may be dropped)
				p.r.mfail("embargo_broken", "rpc.go:(*Conn).handleDisembargo", fmt.Sprintf("the Conn echoed Disembargo %d although the call with token %d, pipelined on question %d before the Disembargo was sent, has neither been reflected to the peer nor answered", id, tok, q.id))
				return
			}
			p.echoed[tok] = id
		}
	default:
		s.Logf("conn -> peer: Disembargo %v", d.Context().Which())
	}
}

func releaseMsg(id, n uint32) func(m rpccp.Message) error {
	return func(m rpccp.Message) error {
		rl, err := m.NewRelease()
		if err != nil {
			return err
		}
		rl.SetId(id)
		rl.SetReferenceCount(n)
		return nil
	}
}

func (p *peer) moveDisembargoPossible() bool {
	for _, id := range p.order {
		q := p.myQ[id]
		if q.kind == "call" && q.returned && q.retErr == "" && !q.finishSent && !q.disembargoSent && len(q.retCaps) > 0 && q.retCaps[0].kind == "receiverHosted" {
			if e := p.mine[q.retCaps[0].id]; e != nil {
				return true
			}
		}
	}
	return false
}
