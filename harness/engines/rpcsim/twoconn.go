package rpcsim

import (
	"context"
	"fmt"
	"strings"
	"testing"
	"time"

	capnp "capnproto.org/go/capnp/v3"
	"capnproto.org/go/capnp/v3/rpc"
	"capnproto.org/go/capnp/v3/server"
	"capnproto.org/go/capnp/v3/simrt"
	"verifh/worker"
)

// Topology B: two real Conns joined by a pair of simulated transports, with
// application capabilities and callers on both sides.  No model peer: both
// ends run the library, so what one end sends the other has to understand,
// three-party paths (a capability of one side handed to the other side and
// back) and the library's own embargo echo are exercised.  Oracles are at the
// application level:
//
//   - every call is delivered exactly once to the capability its handle (or
//     the answer it was pipelined on) designates, or fails - and it may fail
//     without having been delivered only if it was cancelled, pipelined on
//     something that failed, or the connection is closing;
//   - a delivered call resolves with exactly what the implementation returned;
//   - calls issued in sequence through one handle (or pipelined on one
//     answer) reach one capability in that order;
//   - no application capability is shut down while somebody still holds a
//     handle designating it, and after every handle has been released and
//     every call finished both Conns' tables are empty and every
//     non-bootstrap capability is shut down exactly once.

const (
	bSlow      = 1 << 0 // Ack, then wait until released
	bFail      = 1 << 1
	bRetFresh  = 1 << 2 // result pointer 0 = a fresh capability on the implementation's side
	bRetParam  = 1 << 3 // result pointer 0 = the capability received in the params
	bRetBoot   = 1 << 4 // result pointer 0 = the bootstrap capability of the implementation's side
	bCallParam = 1 << 5 // Ack, call the capability received in the params, wait for it, then return
)

type bApp struct {
	b         *brun
	side      int
	id        int
	client    *capnp.Client // the harness' own reference
	shutdown  int
	dropped   bool
	handedOver bool // the harness' only reference went into a result message
	delivered []*bCall
}

func (a *bApp) String() string { return fmt.Sprintf("%s.app%d", sideName(a.side), a.id) }

func sideName(i int) string { return [...]string{"L", "R"}[i] }

type bSide struct {
	idx     int
	conn    *rpc.Conn
	tr      *SimTransport
	apps    []*bApp
	reports []string
	closed  bool
}

// bHandle is a client reference held by a caller task, with what the model knows about its identity.
type bHandle struct {
	c        *capnp.Client
	target   *bApp  // the application capability it designates, if known when obtained
	targetOf *bCall // pipelined client: designates whatever this call puts into result pointer 0
	released bool
	issued   int
	what     string
}

type bCall struct {
	token     uint64
	caller    string
	h         *bHandle // called through this handle ...
	base      *bCall   // ... or pipelined on this call's answer (pointer 0)
	seq       int      // position among the calls issued through h / on base
	flags     uint64
	param     *bHandle // capability passed in the params
	paramApp  *bApp    // or an application capability of the caller's side
	nestedOf  *bCall   // issued by an implementation (bCallParam) on behalf of this call
	ans       *capnp.Answer
	rel       capnp.ReleaseFunc
	ctx       context.Context
	cancel    context.CancelFunc
	cancelled bool
	finished  bool // the caller has collected the result
	resErr    error
	resToken  uint64
	// implementation side
	starts   int
	app      *bApp
	startSeq uint64
	waiting  bool
	release  bool
	implDone bool
	implErr  error
	put      *bApp // capability placed in result pointer 0 (nil: none)
	putKnown bool  // put is meaningful (the implementation ran far enough to decide)
	nested   *bCall
}

type brun struct {
	s        *simrt.Sched
	prop     string
	opt      worker.Options
	side     [2]*bSide
	pipe     [2][]wireMsg // pipe[i]: messages travelling to side i
	calls    []*bCall
	byToken  map[uint64]*bCall
	nextTok  uint64
	handles  []*bHandle
	done     int
	ntasks   int
	guard    bool
	ops      int
	desc     []string
	closing  bool
	allApps  []*bApp
	fault    faultCase // C09: one fault on side L's transport, or Close / cancellation at a step
	faulty   bool      // a fault was planned: only the termination oracles apply
	closeRets [2]int
	callerCancels []context.CancelFunc
	callersCancelled bool
}

type bReporter struct {
	b *brun
	i int
}

func (rp bReporter) ReportError(err error) {
	sd := rp.b.side[rp.i]
	sd.reports = append(sd.reports, err.Error())
	rp.b.s.Logf("conn %s reports: %v", sideName(rp.i), err)
}

func (a *bApp) Shutdown() {
	b := a.b
	a.shutdown++
	b.s.Logf("%v Shutdown (#%d)", a, a.shutdown)
	if a.shutdown > 1 {
		b.s.Fail("shutdown_twice", "rpc.go:(*Conn).shutdown", fmt.Sprintf("application capability %v was released twice", a))
		return
	}
	if !a.dropped {
		b.s.Fail("export_early_drop", "export.go:(*Conn).releaseExport", fmt.Sprintf("application capability %v was shut down while the application still holds its own reference", a))
		return
	}
	if b.closing || b.faulty {
		return
	}
	for _, h := range b.handles {
		if !h.released && b.handleTarget(h) == a {
			b.s.Fail("export_early_drop", "export.go:(*Conn).releaseExport", fmt.Sprintf("application capability %v was shut down while a caller still holds a reference to it (%s) and both connections are open", a, h.what))
			return
		}
	}
}

// handleTarget: the capability a handle designates as far as the model can tell (nil: unknown or nothing).
func (b *brun) handleTarget(h *bHandle) *bApp {
	if h == nil {
		return nil
	}
	if h.target != nil {
		return h.target
	}
	if c := h.targetOf; c != nil && c.implDone && c.implErr == nil && c.putKnown {
		return c.put
	}
	return nil
}

func (b *brun) newApp(side int) *bApp {
	sd := b.side[side]
	a := &bApp{b: b, side: side, id: len(sd.apps)}
	sd.apps = append(sd.apps, a)
	b.allApps = append(b.allApps, a)
	srv := server.New([]server.Method{{
		Method: capnp.Method{InterfaceID: ifaceID, MethodID: 0},
		Impl:   func(ctx context.Context, call *server.Call) error { return b.impl(a, ctx, call) },
	}}, a, a, &server.Policy{MaxConcurrentCalls: 8, AnswerQueueSize: 8})
	a.client = capnp.NewClient(srv)
	return a
}

func (b *brun) newCall(caller string) *bCall {
	b.nextTok++
	c := &bCall{token: b.nextTok, caller: caller}
	c.ctx, c.cancel = context.WithCancel(context.Background())
	b.calls = append(b.calls, c)
	b.byToken[c.token] = c
	return c
}

func (b *brun) impl(a *bApp, ctx context.Context, call *server.Call) error {
	s := b.s
	args := call.Args()
	token, flags := args.Uint64(0), args.Uint64(8)
	c := b.byToken[token]
	if c == nil {
		s.Fail("unknown_call", "rpc.go:(*Conn).handleCall", fmt.Sprintf("%v received a call with unknown token %d", a, token))
		return nil
	}
	c.starts++
	if c.starts > 1 {
		s.Fail("delivered_twice", "rpc.go:(*Conn).handleCall", fmt.Sprintf("call %d was delivered twice (to %v and %v)", token, c.app, a))
		return nil
	}
	c.app = a
	c.startSeq = s.Seq()
	a.delivered = append(a.delivered, c)
	s.Logf("%v: call %d flags=%b starts", a, token, flags)
	if a.shutdown > 0 {
		s.Fail("call_after_shutdown", "rpc.go:(*Conn).handleCall", fmt.Sprintf("call %d delivered to %v after it was shut down", token, a))
		return nil
	}
	// ordering: among the calls issued earlier through the same handle / on the same answer, none may arrive later
	var param *capnp.Client
	if p, err := args.Ptr(0); err == nil && p.Interface().IsValid() {
		param = p.Interface().Client()
	}
	res, err := call.AllocResults(capnp.ObjectSize{DataSize: 16, PointerCount: 2})
	if err != nil {
		c.implErr = fmt.Errorf("app-error:%d:alloc:%v", token, err)
		c.implDone = true
		return c.implErr
	}
	res.SetUint64(0, token+1000)
	put := func(cl *capnp.Client, app *bApp) {
		id := res.Message().AddCap(cl)
		res.SetPtr(0, capnp.NewInterface(res.Segment(), id).ToPtr())
		c.put = app
	}
	switch {
	case flags&bRetFresh != 0:
		n := b.newApp(a.side)
		if token%2 == 0 {
			// the only reference travels with the result: the Conns' tables own the capability
			n.dropped, n.handedOver = true, true
			put(n.client, n)
			s.Probe("B_fresh_capability_owned_by_the_connection")
		} else {
			put(n.client.AddRef(), n)
		}
		s.Probe("B_return_fresh_capability")
	case flags&bRetBoot != 0:
		put(b.side[a.side].apps[0].client.AddRef(), b.side[a.side].apps[0])
	case flags&bRetParam != 0 && param != nil:
		var app *bApp
		if c.paramApp != nil {
			app = c.paramApp
		} else {
			app = b.handleTarget(c.param)
		}
		put(param.AddRef(), app)
		if app == nil {
			c.put = nil // identity unknown to the model
			c.putKnown = false
			s.Probe("B_return_param_of_unknown_identity")
		}
		if app != nil && app.side == a.side {
			s.Probe("B_return_param_that_is_local_here")
		} else if app != nil {
			s.Probe("B_return_param_hosted_by_the_caller_side")
		}
	}
	c.putKnown = !(flags&bRetParam != 0 && param != nil && c.put == nil)
	switch {
	case flags&bSlow != 0:
		call.Ack()
		c.waiting = true
		s.Block("B-app-slow", func() bool { return c.release || ctx.Err() != nil })
		c.waiting = false
		if ctx.Err() != nil && !c.release {
			c.implErr = fmt.Errorf("app-error:%d:cancelled", token)
			c.implDone = true
			return c.implErr
		}
	case flags&bCallParam != 0 && param != nil:
		call.Ack()
		n := b.newCall(fmt.Sprintf("%v(impl of %d)", a, token))
		n.nestedOf = c
		c.nested = n
		// the nested call goes wherever the parameter leads
		n.h = &bHandle{c: param, target: c.paramApp, what: fmt.Sprintf("parameter of call %d", token)}
		if c.paramApp == nil && c.param != nil {
			n.h.target = b.handleTarget(c.param)
			n.h.targetOf = c.param.targetOf
		}
		s.Probe("B_nested_call_from_implementation")
		s.Logf("%v: call %d makes nested call %d on its parameter", a, token, n.token)
		n.ans, n.rel = param.SendCall(ctx, capnp.Send{Method: capnp.Method{InterfaceID: ifaceID, MethodID: 0}, ArgsSize: capnp.ObjectSize{DataSize: 16, PointerCount: 2}, PlaceArgs: func(st capnp.Struct) error {
			st.SetUint64(0, n.token)
			st.SetUint64(8, 0)
			return nil
		}})
		st, err := n.ans.Struct()
		n.finished = true
		n.resErr = err
		if err == nil {
			n.resToken = st.Uint64(0)
		}
		if ctx.Err() != nil {
			n.cancelled = true
		}
		n.rel()
	default:
		k := s.Choice("B-app-yields", 6)
		if k > 2 {
			k *= 3
		}
		for i := 0; i < k; i++ {
			simrt.YieldAt("B-app")
		}
	}
	if flags&bFail != 0 {
		c.implErr = fmt.Errorf("app-error:%d:failed", token)
		c.implDone = true
		return c.implErr
	}
	c.implDone = true
	s.Logf("%v: call %d returns ok (put=%v)", a, token, c.put)
	return nil
}

func (b *brun) place(c *bCall) func(capnp.Struct) error {
	return func(st capnp.Struct) error {
		st.SetUint64(0, c.token)
		st.SetUint64(8, c.flags)
		var pc *capnp.Client
		if c.paramApp != nil {
			pc = c.paramApp.client
		} else if c.param != nil {
			pc = c.param.c
		}
		if pc != nil {
			id := st.Message().AddCap(pc.AddRef())
			return st.SetPtr(0, capnp.NewInterface(st.Segment(), id).ToPtr())
		}
		return nil
	}
}

func (b *brun) pickFlags() uint64 {
	switch b.s.Choice("B-flags", 10) {
	case 0, 1:
		return 0
	case 2:
		return bSlow
	case 3:
		return bFail
	case 4:
		return bRetFresh
	case 5:
		return bRetBoot
	case 6, 7:
		return bRetParam
	case 8:
		return bCallParam
	default:
		return bSlow | bRetFresh
	}
}

func (b *brun) callerTask(side int, idx int, nops int) {
	s := b.s
	me := fmt.Sprintf("%s.caller%d", sideName(side), idx)
	defer func() { b.done++ }()
	// (the context of Bootstrap / Resolve: only ever cancelled by the janitor of a fault run)
	ctx, cancelCaller := context.WithCancel(context.Background())
	b.callerCancels = append(b.callerCancels, cancelCaller)
	var held []*bHandle
	var outs []*bCall
	live := func() []*bHandle {
		var out []*bHandle
		for _, h := range held {
			if !h.released {
				out = append(out, h)
			}
		}
		return out
	}
	addHandle := func(h *bHandle) {
		held = append(held, h)
		b.handles = append(b.handles, h)
	}
	finish := func(c *bCall) {
		if c.finished {
			return
		}
		st, err := c.ans.Struct()
		c.finished = true
		c.resErr = err
		if err == nil {
			c.resToken = st.Uint64(0)
			if s.Choice("B-keep-result-cap", 2) == 0 {
				if p, perr := st.Ptr(0); perr == nil && p.Interface().IsValid() {
					if cl := p.Interface().Client(); cl != nil {
						h := &bHandle{c: cl.AddRef(), what: fmt.Sprintf("%s: result capability of call %d", me, c.token)}
						if c.implDone && c.putKnown {
							h.target = c.put
						}
						addHandle(h)
						s.Probe("B_result_capability_kept")
					}
				}
			}
		}
		s.Logf("%s: call %d resolved err=%v", me, c.token, err)
		c.rel()
		c.cancel()
	}
	for i := 0; i < nops && !s.Failed(); i++ {
		b.ops++
		lv := live()
		switch op := s.Choice("B-op", 10); {
		case op == 0 || len(lv) == 0:
			other := b.side[1-side]
			cl := b.side[side].conn.Bootstrap(ctx)
			s.Logf("%s: Bootstrap", me)
			if b.guard {
				_ = cl.Resolve(ctx)
			}
			addHandle(&bHandle{c: cl, target: other.apps[0], what: me + ": bootstrap of " + sideName(1-side)})
		case op <= 4: // call through a handle
			h := lv[s.Choice("B-handle", len(lv))]
			c := b.newCall(me)
			c.h, c.seq = h, h.issued
			h.issued++
			c.flags = b.pickFlags()
			switch s.Choice("B-param", 4) {
			case 0:
				apps := b.side[side].apps
				c.paramApp = apps[s.Choice("B-param-app", len(apps))]
				if c.paramApp.handedOver {
					c.paramApp = apps[0] // (no reference of the application's own left to pass on)
				}
			case 1, 2:
				c.param = lv[s.Choice("B-param-handle", len(lv))]
				if t := b.handleTarget(c.param); t != nil && t.side != side {
					s.Probe("B_param_is_capability_of_the_callee_side")
				}
			}
			if c.flags&(bRetParam|bCallParam) != 0 && c.param == nil && c.paramApp == nil {
				c.flags &^= bRetParam | bCallParam
			}
			s.Logf("%s: SendCall %d via [%s] flags=%b param=%v/%v", me, c.token, h.what, c.flags, c.paramApp, c.param != nil)
			c.ans, c.rel = h.c.SendCall(c.ctx, capnp.Send{Method: capnp.Method{InterfaceID: ifaceID, MethodID: 0}, ArgsSize: capnp.ObjectSize{DataSize: 16, PointerCount: 2}, PlaceArgs: b.place(c)})
			outs = append(outs, c)
		case op == 5 || op == 6: // pipelined call on an outstanding answer
			var cands []*bCall
			for _, c := range outs {
				if !c.finished {
					cands = append(cands, c)
				}
			}
			if len(cands) == 0 {
				continue
			}
			base := cands[s.Choice("B-base", len(cands))]
			c := b.newCall(me)
			c.base = base
			c.flags = b.pickFlags() &^ (bRetParam | bCallParam)
			s.Logf("%s: PipelineSend %d on answer of %d flags=%b", me, c.token, base.token, c.flags)
			s.Probe("B_pipelined_call")
			c.ans, c.rel = base.ans.PipelineSend(c.ctx, []capnp.PipelineOp{{Field: 0}}, capnp.Send{Method: capnp.Method{InterfaceID: ifaceID, MethodID: 0}, ArgsSize: capnp.ObjectSize{DataSize: 16, PointerCount: 2}, PlaceArgs: b.place(c)})
			outs = append(outs, c)
		case op == 7: // collect a result
			for _, c := range outs {
				if !c.finished {
					finish(c)
					break
				}
			}
		case op == 8: // cancel
			for _, c := range outs {
				if !c.finished && !c.cancelled && s.Choice("B-cancel-this", 2) == 0 {
					c.cancelled = true
					c.cancel()
					s.Fault("ctx_cancel")
					break
				}
			}
		case op == 9 && len(lv) > 1: // release a handle
			h := lv[s.Choice("B-release", len(lv))]
			h.released = true
			s.Logf("%s: releases [%s]", me, h.what)
			h.c.Release()
		}
	}
	for _, c := range outs {
		if s.Failed() {
			return
		}
		finish(c)
	}
	for _, h := range held {
		if s.Failed() {
			return
		}
		if !h.released {
			h.released = true
			h.c.Release()
		}
	}
}

func (b *brun) idleHook(s *simrt.Sched) bool {
	for _, c := range b.calls {
		if c.waiting && !c.release {
			c.release = true
			s.Fault("app_release")
			return true
		}
	}
	// After an injected fault a Conn may legitimately never answer a call (it keeps a placeholder
	// for a call whose Return message it could not create): callers can always cancel, and a
	// cancelled call has to resolve.
	if b.faulty {
		for _, c := range b.calls {
			if !c.finished && !c.cancelled && c.cancel != nil && c.nestedOf == nil && c.ans != nil {
				c.cancelled = true
				c.cancel()
				s.Fault("janitor_cancel")
				return true
			}
		}
		if !b.callersCancelled {
			b.callersCancelled = true
			for _, f := range b.callerCancels {
				f()
			}
			s.Fault("janitor_cancel_bootstrap")
			return true
		}
	}
	return false
}

// expected target of a call, as far as the model can tell; known=false when it cannot
func (b *brun) expected(c *bCall) (app *bApp, known bool, mustFail bool) {
	if c.base != nil {
		bs := c.base
		if bs.starts == 0 || !bs.implDone {
			return nil, false, bs.starts == 0 && bs.finished
		}
		if bs.implErr != nil {
			return nil, true, true
		}
		if !bs.putKnown {
			return nil, false, false
		}
		if bs.put == nil {
			return nil, true, true // no capability at the path
		}
		return bs.put, true, false
	}
	if c.h != nil {
		if c.h.target != nil {
			return c.h.target, true, false
		}
		if t := c.h.targetOf; t != nil {
			if t.implDone && t.implErr == nil && t.putKnown && t.put != nil {
				return t.put, true, false
			}
		}
	}
	return nil, false, false
}

// tainted: something this call depends on was cancelled, so it may legitimately fail or vanish
func (b *brun) tainted(c *bCall) bool {
	for x := c; x != nil; {
		if x.cancelled {
			return true
		}
		if x.nestedOf != nil {
			x = x.nestedOf
			continue
		}
		x = x.base
	}
	return false
}

func (b *brun) checkCalls() {
	s := b.s
	for _, c := range b.calls {
		if s.Failed() {
			return
		}
		if !c.finished {
			s.Fail("call_unresolved", "question.go:(*question).handleCancel", fmt.Sprintf("call %d never resolved", c.token))
			return
		}
		exp, known, mustFail := b.expected(c)
		switch {
		case c.starts > 0:
			if known && !mustFail && exp != c.app {
				s.Fail("misdelivered", "rpc.go:(*Conn).handleCall", fmt.Sprintf("call %d (issued by %s) designates %v but was delivered to %v", c.token, c.caller, exp, c.app))
				return
			}
			if known && mustFail {
				s.Fail("misdelivered", "rpc.go:(*Conn).handleCall", fmt.Sprintf("call %d was delivered to %v although the answer it was pipelined on holds no capability / failed", c.token, c.app))
				return
			}
			if b.tainted(c) {
				continue
			}
			switch {
			case !c.implDone:
				s.Fail("return_wrong_content", "answer.go:(*answer).Return", fmt.Sprintf("call %d resolved (err=%v) while its implementation is still running", c.token, c.resErr))
			case c.implErr != nil:
				if c.resErr == nil || !strings.Contains(c.resErr.Error(), c.implErr.Error()) {
					s.Fail("return_wrong_content", "answer.go:(*answer).sendException", fmt.Sprintf("call %d: the implementation failed with %q but the caller got %v", c.token, c.implErr, c.resErr))
				}
			default:
				if c.resErr != nil || c.resToken != c.token+1000 {
					s.Fail("return_wrong_content", "answer.go:(*answer).sendReturn", fmt.Sprintf("call %d: the implementation on %v succeeded (token %d) but the caller got token %d / error %v", c.token, c.app, c.token+1000, c.resToken, c.resErr))
				}
			}
		default:
			if c.resErr == nil {
				s.Fail("result_without_execution", "rpc.go:(*Conn).handleReturn", fmt.Sprintf("call %d resolved successfully (token %d) although no application capability ever saw it", c.token, c.resToken))
				return
			}
			if known && !mustFail && !b.tainted(c) {
				s.Fail("call_lost", "rpc.go:(*Conn).handleCall", fmt.Sprintf("call %d (issued by %s, designating %v) failed with %v and was never delivered, although nothing it depends on was cancelled and both connections are open", c.token, c.caller, exp, c.resErr))
				return
			}
		}
	}
	// order: calls issued in sequence through one handle, or pipelined on one answer, arrive in that order
	for _, a := range b.allApps {
		lastH := map[*bHandle]*bCall{}
		lastB := map[*bCall]*bCall{}
		for _, c := range a.delivered {
			if c.h != nil && c.nestedOf == nil {
				if p := lastH[c.h]; p != nil && p.seq > c.seq {
					s.Fail("order", "rpc.go:(*Conn).handleCall", fmt.Sprintf("calls %d and %d were issued in that order through one handle (%s) but %v saw %d first", c.token, p.token, c.h.what, a, p.token))
					return
				}
				lastH[c.h] = c
			}
			if c.base != nil {
				if p := lastB[c.base]; p != nil && p.token > c.token {
					s.Fail("order", "rpc.go:(*Conn).handleCall", fmt.Sprintf("calls %d and %d were pipelined in that order on the answer of call %d but %v saw %d first", c.token, p.token, c.base.token, a, p.token))
					return
				}
				lastB[c.base] = c
			}
		}
	}
}

func (b *brun) open(i int) bool {
	sd := b.side[i]
	if sd.closed {
		return false
	}
	select {
	case <-sd.conn.Done():
		return false
	default:
		return true
	}
}

func (b *brun) mainTask() {
	s := b.s
	if b.opt.Avoid["pending-resolution-call"] {
		b.guard = s.Chance("guard-on", 7, 8)
	}
	for i := 0; i < 2; i++ {
		b.side[i] = &bSide{idx: i}
		b.side[i].tr = &SimTransport{name: sideName(i), s: s, inbox: &b.pipe[i], outbox: &b.pipe[1-i]}
	}
	// when one end closes its transport the other end reads EOF once its inbox is drained
	b.side[0].tr.peerGone, b.side[1].tr.peerGone = &b.side[1].tr.closed, &b.side[0].tr.closed
	switch b.fault.kind {
	case "newmsg_err":
		b.side[0].tr.plan.newMsgErrAt = b.fault.at
	case "send_err":
		b.side[0].tr.plan.sendErrAt = b.fault.at
	case "send_stall":
		b.side[0].tr.plan.sendStallAt = b.fault.at
	case "recv_err":
		b.side[0].tr.plan.recvErrAt = b.fault.at
	case "recv_eof":
		b.side[0].tr.plan.recvEOFAt = b.fault.at
	}
	for i := 0; i < 2; i++ {
		b.newApp(i)
		for k := s.Choice("B-extra-apps", 2); k > 0; k-- {
			b.newApp(i)
		}
	}
	for i := 0; i < 2; i++ {
		b.side[i].conn = rpc.NewConn(b.side[i].tr, &rpc.Options{BootstrapClient: b.side[i].apps[0].client.AddRef(), ErrorReporter: bReporter{b, i}})
	}
	s.AddEvent("B-release-slow-call", func() bool {
		for _, c := range b.calls {
			if c.waiting && !c.release {
				return true
			}
		}
		return false
	}, func() {
		for _, c := range b.calls {
			if c.waiting && !c.release {
				c.release = true
				return
			}
		}
	})
	nl, nr := s.Choice("B-callers-L", 3), s.Choice("B-callers-R", 3)
	if nl+nr == 0 {
		nl = 1
	}
	b.ntasks = nl + nr
	b.desc = append(b.desc, fmt.Sprintf("topology B: two Conns, callers L=%d R=%d, apps L=%d R=%d guard=%v", nl, nr, len(b.side[0].apps), len(b.side[1].apps), b.guard))
	for i := 0; i < nl; i++ {
		i := i
		n := 2 + s.Choice("B-nops", 9)
		s.Spawn(fmt.Sprintf("L.caller%d", i), func() { b.callerTask(0, i, n) })
	}
	for i := 0; i < nr; i++ {
		i := i
		n := 2 + s.Choice("B-nops", 9)
		s.Spawn(fmt.Sprintf("R.caller%d", i), func() { b.callerTask(1, i, n) })
	}
	switch b.fault.kind {
	case "close", "close2":
		s.Spawn("closer", func() {
			s.Block("B-close-at", func() bool { return s.Steps() >= b.fault.at || b.closing })
			if b.closing || b.side[0].closed {
				return
			}
			b.side[0].closed = true
			s.Fault("close")
			s.Logf("closer: Close L at step %d", s.Steps())
			_ = b.side[0].conn.Close()
			b.closeRets[0]++
			if b.fault.kind == "close2" {
				s.Fault("close_again")
				_ = b.side[0].conn.Close()
				b.closeRets[0]++
				// an operation issued after Close must come back with an error, not hang
				c := b.side[0].conn.Bootstrap(context.Background())
				ans, rel := c.SendCall(context.Background(), capnp.Send{Method: capnp.Method{InterfaceID: ifaceID}})
				_, _ = ans.Struct()
				rel()
				c.Release()
			}
		})
	case "cancel":
		s.Spawn("canceller", func() {
			s.Block("B-cancel-at", func() bool { return s.Steps() >= b.fault.at || b.closing })
			for _, c := range b.calls {
				if c.cancel != nil && !c.finished && c.nestedOf == nil {
					c.cancelled = true
					c.cancel()
					s.Fault("cancel")
				}
			}
		})
	}
	s.Block("B-workload-done", func() bool { return b.done == b.ntasks })
	if s.Failed() {
		return
	}
	if b.faulty {
		b.finishFaulty()
		return
	}
	for i := 0; i < 2; i++ {
		if !b.open(i) {
			s.Fail("conn_died", "rpc.go:(*Conn).receive", fmt.Sprintf("connection %s shut itself down during a fault-free session between two instances of the library: L reports %v, R reports %v", sideName(i), b.side[0].reports, b.side[1].reports))
			return
		}
	}
	// Calls whose callers cancelled and went away may still be on the wire, about to start or
	// running (and may make nested calls of their own): let everything settle first.
	for quiet := 0; quiet < 3 && !s.Failed(); {
		s.Block("B-impls-done", func() bool {
			for _, c := range b.calls {
				if c.starts > 0 && !c.implDone {
					return false
				}
			}
			return true
		})
		n := len(b.calls)
		s.Sleep(100 * time.Millisecond)
		idle := len(b.pipe[0]) == 0 && len(b.pipe[1]) == 0 && n == len(b.calls)
		for _, c := range b.calls {
			if c.starts > 0 && !c.implDone {
				idle = false
			}
		}
		if idle {
			quiet++
		} else {
			quiet = 0
		}
	}
	if s.Failed() {
		return
	}
	b.checkCalls()
	if s.Failed() {
		return
	}
	// quiescence: every handle released, every call finished - let Finish/Release messages drain
	for k := 0; k < 50; k++ {
		s.Sleep(100 * time.Millisecond)
		if len(b.pipe[0]) == 0 && len(b.pipe[1]) == 0 {
			break
		}
	}
	s.Sleep(time.Second)
	if s.Failed() {
		return
	}
	for i := 0; i < 2; i++ {
		if !b.open(i) {
			s.Fail("conn_died", "rpc.go:(*Conn).receive", fmt.Sprintf("connection %s shut itself down while draining: L reports %v, R reports %v", sideName(i), b.side[0].reports, b.side[1].reports))
			return
		}
		v := b.side[i].conn.SimView()
		if v.Answers != 0 || v.Exports != 0 || v.Questions != 0 || v.Embargoes != 0 || v.Imports != 0 {
			s.Fail("table_leak", "rpc.go:(*Conn).handleFinish", fmt.Sprintf("after every call was finished and every reference released, Conn %s still holds questions=%d answers=%d exports=%d imports=%d embargoes=%d", sideName(i), v.Questions, v.Answers, v.Exports, v.Imports, v.Embargoes))
			return
		}
	}
	s.Probe("B_quiescent_tables_checked")
	for _, a := range b.allApps {
		if a.id == 0 {
			continue
		}
		a.dropped = true
		if !a.handedOver {
			a.client.Release()
		}
		if a.shutdown != 1 && !s.Failed() {
			s.Fail("export_leak", "export.go:(*Conn).releaseExport", fmt.Sprintf("application capability %v is still referenced although every reference to it was released and every call finished", a))
			return
		}
	}
	if s.Failed() {
		return
	}
	// Close both ends
	b.closing = true
	first := s.Choice("B-close-first", 2)
	for k := 0; k < 2; k++ {
		i := (first + k) % 2
		b.side[i].closed = true
		s.Logf("main: Close %s", sideName(i))
		_ = b.side[i].conn.Close()
	}
	for _, a := range b.allApps {
		if !a.dropped {
			a.dropped = true
			a.client.Release()
		}
	}
	s.Sleep(time.Second)
	if s.Failed() {
		return
	}
	for _, a := range b.allApps {
		if a.shutdown != 1 {
			s.Fail("shutdown_count", "rpc.go:(*Conn).shutdown", fmt.Sprintf("after Close of both connections, application capability %v has been released %d times (want exactly 1)", a, a.shutdown))
			return
		}
	}
	if n := s.SUTPending(); n > 0 {
		s.Fail("goroutine_leak", "rpc.go:(*Conn).shutdown", fmt.Sprintf("%d goroutine(s) started by the connections are still alive after both were closed: %v", n, s.Stuck(false)))
		return
	}
	if held := s.HeldMutexes(); len(held) > 0 {
		s.Fail("lock_leak", "rpc.go:(*Conn).Close", fmt.Sprintf("after Close returned a lock is still held: %v", held))
	}
}

// finishFaulty: the end of a run in which a fault was planned (C09).  Whatever happened to the calls,
// they have all resolved (the callers are done); now every implementation returns, both Conns are
// closed, every capability is released exactly once and nothing is left running or locked.
func (b *brun) finishFaulty() {
	s := b.s
	for quiet := 0; quiet < 3 && !s.Failed(); {
		s.Block("B-impls-done", func() bool {
			for _, c := range b.calls {
				if c.starts > 0 && !c.implDone {
					return false
				}
			}
			return true
		})
		n := len(b.calls)
		s.Sleep(100 * time.Millisecond)
		idle := n == len(b.calls)
		for _, c := range b.calls {
			if c.starts > 0 && !c.implDone {
				idle = false
			}
		}
		if idle {
			quiet++
		} else {
			quiet = 0
		}
	}
	if s.Failed() {
		return
	}
	for _, c := range b.calls {
		if !c.finished {
			s.Fail("call_unresolved", "question.go:(*question).handleCancel", fmt.Sprintf("call %d never resolved", c.token))
			return
		}
		if c.starts == 0 && c.resErr == nil {
			s.Fail("result_without_execution", "rpc.go:(*Conn).handleReturn", fmt.Sprintf("call %d resolved successfully (token %d) although no application capability ever saw it", c.token, c.resToken))
			return
		}
	}
	b.closing = true
	first := s.Choice("B-close-first", 2)
	for k := 0; k < 2; k++ {
		i := (first + k) % 2
		if b.side[i].closed {
			continue
		}
		b.side[i].closed = true
		s.Logf("main: Close %s", sideName(i))
		_ = b.side[i].conn.Close()
		b.closeRets[i]++
	}
	for _, a := range b.allApps {
		if !a.dropped {
			a.dropped = true
			a.client.Release()
		}
	}
	s.Sleep(time.Second)
	if s.Failed() {
		return
	}
	if b.fault.kind == "close" || b.fault.kind == "close2" {
		s.Block("B-closer-done", func() bool { return b.closeRets[0] > 0 })
	}
	if n := s.SUTPending(); n > 0 {
		s.Fail("goroutine_leak", "rpc.go:(*Conn).shutdown", fmt.Sprintf("%d goroutine(s) started by the connections are still alive after both were closed: %v", n, s.Stuck(false)))
		return
	}
	if held := s.HeldMutexes(); len(held) > 0 {
		s.Fail("lock_leak", "rpc.go:(*Conn).Close", fmt.Sprintf("after Close returned a lock is still held: %v", held))
		return
	}
	for i := 0; i < 2; i++ {
		if v := b.side[i].conn.SimView(); v.SenderLocked {
			s.Fail("lock_leak", "rpc.go:(*Conn).Close", fmt.Sprintf("after Close returned the sender lock of Conn %s is still held", sideName(i)))
			return
		}
	}
	for _, a := range b.allApps {
		if a.shutdown != 1 {
			s.Fail("shutdown_count", "rpc.go:(*Conn).shutdown", fmt.Sprintf("after the fault and Close of both connections, application capability %v has been released %d times (want exactly 1)", a, a.shutdown))
			return
		}
	}
	s.Probe("B_fault_run_terminated_cleanly")
}

func singleB(t *testing.T, tape *simrt.Tape, opt worker.Options, fc faultCase) (*worker.Outcome, *brun) {
	b := &brun{prop: opt.Property, opt: opt, byToken: map[uint64]*bCall{}, fault: fc, faulty: fc.kind != ""}
	body := func(s *simrt.Sched) {
		b.s = s
		b.mainTask()
	}
	res := simrt.Run(t, simrt.Config{Tape: tape, MaxSteps: 120000, Trace: opt.Trace, OnIdle: b.idleHook, MaxSim: 10 * time.Minute}, body, nil)
	oc := &worker.Outcome{Res: res, Verdict: res.Verdict, Ops: b.ops, Probes: res.Probes, Faults: res.Faults}
	oc.NonTrivial = res.Switches > 0
	oc.Key = res.TraceHash
	oc.Sample = map[string]interface{}{"scenario": b.desc, "calls": len(b.calls), "apps": len(b.allApps), "steps": res.Steps, "switches": res.Switches}
	if oc.Verdict != nil {
		oc.Pattern = oc.Verdict.Oracle
		if len(res.StuckSites) > 0 {
			oc.Pattern = "stuck:" + strings.Join(res.StuckSites, "|")
		}
	}
	oc.ReplayParams = map[string]string{"topo": "B"}
	return oc, b
}
