package rpcsim

import (
	"context"
	"errors"
	"fmt"
	"time"

	capnp "capnproto.org/go/capnp/v3"
	"capnproto.org/go/capnp/v3/simrt"
	rpccp "capnproto.org/go/capnp/v3/std/capnp/rpc"
)

// SimTransport is a message-level rpc.Transport whose deliveries, stalls and
// failures are scheduler decisions.  One direction of traffic is a FIFO of
// marshalled messages (the protocol assumes a reliable ordered stream).

var errInjected = errors.New("rpcsim: injected transport fault")

type wireMsg struct {
	seq  uint64
	data []byte
	caps []uint32 // peer exports referenced by senderHosted descriptors in this message
}

// fault plan: fail the n-th transport operation of a given kind (1-based), 0 = never
type faultPlan struct {
	newMsgErrAt int
	sendErrAt   int
	sendStallAt int
	recvErrAt   int
	recvEOFAt   int
	closeErr    bool
}

type SimTransport struct {
	name    string
	s       *simrt.Sched
	inbox   *[]wireMsg // messages waiting to be received by this end
	outbox  *[]wireMsg // messages this end has sent
	onSend  func(data []byte) // monitor hook, called for every message actually sent
	onRecv  func(wm wireMsg)  // monitor hook, called when the Conn takes a message
	closed  bool
	peerGone *bool // set when the other end closed: RecvMessage returns EOF once the inbox is drained
	plan    faultPlan
	nNew, nSend, nRecv int
	ops     int // total transport operations performed (for the sweep)
	outstanding int // messages created and not yet released
	closes  int
	sendActive int
	recvActive int
}

func (t *SimTransport) NewMessage(ctx context.Context) (rpccp.Message, func() error, capnp.ReleaseFunc, error) {
	t.ops++
	t.nNew++
	if t.closed {
		return rpccp.Message{}, nil, nil, errors.New("rpcsim: NewMessage on closed transport")
	}
	if t.plan.newMsgErrAt != 0 && t.nNew == t.plan.newMsgErrAt {
		t.s.Fault("newmsg_err")
		return rpccp.Message{}, nil, nil, errInjected
	}
	msg, seg, err := capnp.NewMessage(capnp.MultiSegment(nil))
	if err != nil {
		return rpccp.Message{}, nil, nil, err
	}
	rmsg, err := rpccp.NewRootMessage(seg)
	if err != nil {
		return rpccp.Message{}, nil, nil, err
	}
	t.outstanding++
	sent := false
	released := false
	send := func() error {
		t.ops++
		t.nSend++
		if sent {
			t.s.Probe("transport_contract: " + "send called twice on one message")
			return errors.New("send twice")
		}
		sent = true
		if released {
			t.s.Probe("transport_contract: " + "send called after release")
		}
		if msg.CapTable != nil {
			t.s.Probe("transport_contract: " + "message sent with a non-nil CapTable")
		}
		if t.closed {
			return errors.New("rpcsim: send on closed transport")
		}
		if t.plan.sendErrAt != 0 && t.nSend == t.plan.sendErrAt {
			t.s.Fault("send_err")
			return errInjected
		}
		if t.plan.sendStallAt != 0 && t.nSend == t.plan.sendStallAt {
			// stall until the context is cancelled (or the clock passes its deadline)
			t.s.Fault("send_stall")
			t.sendActive++
			deadline := t.s.Now() + 10*time.Second // fake time: a stalled write eventually fails
			t.s.Block("send-stall", func() bool { return ctx.Err() != nil || t.s.Now() >= deadline })
			if ctx.Err() == nil {
				t.sendActive--
				return errors.New("rpcsim: stalled write timed out")
			}
			t.sendActive--
			return ctx.Err()
		}
		if err := ctx.Err(); err != nil {
			return err
		}
		// a write takes a while: the sender lock stays held over 1-4 schedule points
		for i := 1 + t.s.Choice("send-duration", 4); i > 0; i-- {
			simrt.YieldAt("transport-send")
		}
		data, err := msg.Marshal()
		if err != nil {
			return err
		}
		wm := wireMsg{seq: t.s.Seq(), data: data}
		*t.outbox = append(*t.outbox, wm)
		if t.onSend != nil {
			t.onSend(data)
		}
		return nil
	}
	release := func() {
		if released {
			return
		}
		released = true
		t.outstanding--
		if msg.CapTable != nil {
			t.s.Probe("transport_contract: " + "message released with a non-nil CapTable")
		}
		msg.Reset(nil)
	}
	return rmsg, send, release, nil
}

func (t *SimTransport) RecvMessage(ctx context.Context) (rpccp.Message, capnp.ReleaseFunc, error) {
	t.ops++
	t.nRecv++
	if t.plan.recvErrAt != 0 && t.nRecv == t.plan.recvErrAt {
		t.s.Fault("recv_err")
		return rpccp.Message{}, nil, errInjected
	}
	t.recvActive++
	t.s.Block("recv-"+t.name, func() bool {
		return len(*t.inbox) > 0 || ctx.Err() != nil || t.closed || (t.peerGone != nil && *t.peerGone)
	})
	t.recvActive--
	if t.plan.recvEOFAt != 0 && t.nRecv == t.plan.recvEOFAt {
		t.s.Fault("recv_eof")
		return rpccp.Message{}, nil, errors.New("rpcsim: EOF")
	}
	if len(*t.inbox) == 0 {
		if ctx.Err() != nil {
			return rpccp.Message{}, nil, ctx.Err()
		}
		return rpccp.Message{}, nil, errors.New("rpcsim: EOF (peer closed)")
	}
	wm := (*t.inbox)[0]
	*t.inbox = (*t.inbox)[1:]
	if t.onRecv != nil {
		t.onRecv(wm)
	}
	msg, err := capnp.Unmarshal(wm.data)
	if err != nil {
		return rpccp.Message{}, nil, fmt.Errorf("rpcsim: unmarshal: %v", err)
	}
	rmsg, err := rpccp.ReadRootMessage(msg)
	if err != nil {
		return rpccp.Message{}, nil, fmt.Errorf("rpcsim: read root: %v", err)
	}
	return rmsg, func() {
		if msg.CapTable != nil {
			t.s.Probe("transport_contract: " + "received message released with a non-nil CapTable")
		}
		msg.Reset(nil)
	}, nil
}

func (t *SimTransport) Close() error {
	t.ops++
	t.closes++
	if t.closes > 1 {
		t.s.Probe("transport_contract: " + "Transport.Close called twice")
	}
	if t.sendActive > 0 {
		t.s.Probe("transport_contract: " + "Transport.Close called while a send is in progress")
	}
	t.closed = true
	if t.plan.closeErr {
		t.s.Fault("close_err")
		return errInjected
	}
	return nil
}
