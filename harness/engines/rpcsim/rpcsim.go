// Package rpcsim simulates one real rpc.Conn against a spec-following model
// peer (topology A), two real Conns joined back to back (topology B), and the
// stream transports (topology C), with transport faults, cancellation and
// Close injected by the scheduler (properties C06 - C09).
package rpcsim

import (
	"context"
	"fmt"
	"io"
	"sort"
	"strings"
	"testing"
	"time"

	capnp "capnproto.org/go/capnp/v3"
	"capnproto.org/go/capnp/v3/rpc"
	"capnproto.org/go/capnp/v3/simrt"
	"verifh/worker"
)

type Engine struct{}

func (Engine) Name() string { return "rpcsim" }

type localCall struct {
	token     uint64
	via       string
	ctx       context.Context
	cancel    context.CancelFunc
	cancelled bool
	ans       *capnp.Answer
	rel       capnp.ReleaseFunc
	resolved  int
	done      bool
	their     *theirQuestion
	base      *localCall // pipelined on this call's answer
	path      uint16     // ... through this result pointer (0 or 1)
	seq       int        // position among the calls pipelined on base through that pointer
	npiped    [2]int
	delivered [2]int // per result pointer: highest seq+1 of the calls pipelined on this one that reached an application capability
}

type run struct {
	s        *simrt.Sched
	capsBias bool           // C07: workload biased towards capability traffic
	giveUp   *theirQuestion // set by the idle hook: the peer stops waiting for the Conn's answer to this reflected call
	prop     string
	opt      worker.Options
	conn     *rpc.Conn
	tr       *SimTransport
	pipe     *simPipe
	toConn   []wireMsg
	toPeer   []wireMsg
	peer     *peer
	apps     []*appCap
	appCalls map[uint64]*appCall
	started  []*appCall
	sentTo   map[string][]uint64 // peer calls per target designator, in send order
	nextTok  uint64
	locals   map[uint64]*localCall
	closed   bool // Close invoked
	deferEcho bool // the model peer echoes Disembargo(senderLoopback) as a separate move
	closeRet bool
	connDead bool // transport failed / abort: the connection is over
	reports  []string
	callersDone int
	ncallers int
	peerBudget int
	peerDone bool
	hostile  bool
	guard    bool
	faultsPlanned int
	settleReq, settleDone bool
	hostileBudget int
	probeOnly, probeSend bool
	probeQ uint32
	fault    faultCase
	closeRets int
	allDone  bool
	ops      int
	desc     []string
}

type reporter struct{ r *run }

func (rp reporter) ReportError(err error) {
	rp.r.reports = append(rp.r.reports, err.Error())
	rp.r.s.Logf("conn reports: %v", err)
}

func (r *run) newToken() uint64 { r.nextTok++; return r.nextTok }

// mfail reports a verdict of the protocol monitor (C06/C07/C08 oracles); the
// fault-sweep runs of C09 use only the termination oracles.
func (r *run) mfail(oracle, site, detail string) {
	if r.prop == "C08" {
		r.s.Probe("monitor_verdict_ignored_with_hostile_peer:" + oracle)
		return
	}
	if r.prop == "C09" {
		r.s.Probe("monitor_verdict_ignored_in_fault_sweep:" + oracle)
		return
	}
	r.s.Fail(oracle, site, detail)
}

// faultCase is one point of the per-operation sweep.
type faultCase struct {
	kind string // newmsg_err send_err send_stall recv_err recv_eof close close2 cancel
	at   int    // transport operation index (1-based) or scheduling step
}

func (f faultCase) String() string { return fmt.Sprintf("%s@%d", f.kind, f.at) }

func parseFault(s string) faultCase {
	var f faultCase
	if i := strings.IndexByte(s, '@'); i > 0 {
		f.kind = s[:i]
		fmt.Sscanf(s[i+1:], "%d", &f.at)
	}
	return f
}

func (r *run) connOpen() bool {
	if r.closed || r.connDead {
		return false
	}
	select {
	case <-r.conn.Done():
		return false
	default:
		return true
	}
}

// ---- oracle hooks called by the peer

func (r *run) callSent(q *myQuestion) {
	r.sentTo[q.target] = append(r.sentTo[q.target], q.token)
}

func (r *run) exportRefsChanged(e *connExport) {
	if e.refs < 0 {
		r.s.Fail("refcount_negative", "export.go:(*Conn).releaseExport", fmt.Sprintf("model error or protocol violation: peer reference count of export %d is %d", e.id, e.refs))
	}
	if e.refs == 0 {
		e.dead = true
	}
}

func (r *run) localCallArrived(q *theirQuestion) {
	if lc := r.locals[q.token]; lc != nil {
		if lc.their != nil && lc.their.fwd != nil {
			// the peer reflected this call to an export of the Conn that is itself a proxy for a
			// capability of the peer: the Conn passes it on again
			r.s.Probe("reflected_call_bounced_back_to_peer")
			return
		}
		if lc.their != nil {
			r.mfail("call_sent_twice", "import.go:(*importClient).Send", fmt.Sprintf("local call %d was sent to the peer twice", q.token))
			return
		}
		lc.their = q
	}
}

// peerGotReturn checks the content of a Return against what the application did.
func (r *run) peerGotReturn(q *myQuestion) {
	s := r.s
	if q.kind == "bootstrap" {
		if q.retErr != "" {
			r.mfail("return_wrong_content", "rpc.go:(*Conn).handleBootstrap", fmt.Sprintf("Bootstrap question %d was answered with %q although a bootstrap capability is exported", q.id, q.retErr))
			return
		}
		if len(q.retCaps) != 1 || q.retCaps[0].kind != "senderHosted" {
			r.mfail("return_wrong_content", "rpc.go:(*Conn).handleBootstrap", fmt.Sprintf("Bootstrap return carries descriptors %v, want one senderHosted", q.retCaps))
		}
		return
	}
	ac := r.appCalls[q.token]
	if q.badDesc {
		if ac != nil || q.retErr == "" {
			s.Probe("call_with_bad_descriptor_was_delivered")
		}
		return
	}
	{
		// the target resolved to a capability hosted by the peer itself: the Conn forwarded the call to us
		// (and the peer may in turn have reflected it to an export of the Conn: the answer is still what
		// the peer answered to the forwarded call).  For a reflected call only a later arrival counts: the
		// export it was reflected to was itself a proxy for a capability of the peer.
		if tq := r.peer.theirByToken[q.token]; tq != nil && tq != q.fwdFor {
			{
				s.Probe("call_forwarded_back_to_peer")
				if q.finishSent {
					return // the peer finished (cancelled) the question: any answer is acceptable
				}
				if !tq.returnSent {
					r.mfail("return_wrong_content", "import.go:returnAnswer", fmt.Sprintf("forwarded call (token %d) was answered before the peer returned", q.token))
					return
				}
				if tq.retExc != (q.retErr != "") || (!tq.retExc && q.retToken != tq.retToken) {
					r.mfail("return_wrong_content", "import.go:returnAnswer", fmt.Sprintf("forwarded call (token %d): the peer answered token %d / exception=%v but the relayed Return carries token %d / %q", q.token, tq.retToken, tq.retExc, q.retToken, q.retErr))
				}
				return
			}
		}
	}
	switch {
	case ac == nil:
		// never delivered: must be an exception (or canceled after Finish)
		if q.retErr == "" {
			r.mfail("return_wrong_content", "answer.go:(*answer).sendReturn", fmt.Sprintf("call %d (token %d, target %s) was answered with results although no application capability ever saw it", q.id, q.token, q.target))
			return
		}
		// ... and an exception is only right when the target really holds no
		// capability the call could have been delivered to.
		if q.finishSent || !r.connOpen() || q.pa == nil {
			return
		}
		switch {
		case q.pa.kind == "bootstrap":
			r.mfail("pipelined_call_lost", "rpc.go:(*Conn).handleCall", fmt.Sprintf("call %d (token %d) pipelined on the bootstrap answer %d was answered with exception %q and never reached the bootstrap capability", q.id, q.token, q.pa.id, q.retErr))
		default:
			pac := r.appCalls[q.pa.token]
			if pac != nil && pac.done && pac.err == nil && pac.putApp >= 0 && r.apps[pac.putApp].shutdown == 0 {
				r.mfail("pipelined_call_lost", "rpc.go:(*Conn).handleCall", fmt.Sprintf("call %d (token %d) pipelined on answer %d, whose implementation returned application capability %d in pointer 0, was answered with exception %q and never delivered", q.id, q.token, q.pa.id, pac.putApp, q.retErr))
			}
		}
	case !ac.done:
		r.mfail("return_wrong_content", "answer.go:(*answer).Return", fmt.Sprintf("call %d (token %d) was answered (%q / token %d) while its implementation is still running", q.id, q.token, q.retErr, q.retToken))
	case ac.err != nil:
		if q.retErr != "" && q.finishSent {
			return // the peer finished (cancelled) the question: any exception is acceptable
		}
		if q.retErr == "" || (q.retErr != "canceled" && !strings.Contains(q.retErr, ac.err.Error())) {
			r.mfail("return_wrong_content", "answer.go:(*answer).sendException", fmt.Sprintf("call %d (token %d): the implementation failed with %q but the Return says %q (token %d)", q.id, q.token, ac.err, q.retErr, q.retToken))
		}
	default:
		if q.retErr == "canceled" && q.finishSent {
			return
		}
		if q.retErr != "" || q.retToken != ac.retToken {
			r.mfail("return_wrong_content", "answer.go:(*answer).sendReturn", fmt.Sprintf("call %d (token %d): the implementation produced token %d but the Return carries token %d / exception %q", q.id, q.token, ac.retToken, q.retToken, q.retErr))
		}
	}
}

// ---- peer task

func (r *run) peerTask() {
	s := r.s
	p := r.peer
	for !s.Failed() {
		s.Block("peer", func() bool {
			return len(r.toPeer) > 0 || r.peerHasMove() || r.peerDone || (r.settleReq && !r.settleDone) || r.giveUp != nil
		})
		if tq := r.giveUp; tq != nil {
			r.giveUp = nil
			if fq := tq.fwd; fq != nil && !tq.returnSent && !fq.returned && !p.aborted {
				if !fq.finishSent {
					p.finish(fq, false)
				}
				fq.retErr = "gave up waiting for the Conn's answer"
				p.relay(fq)
			}
			continue
		}
		if r.settleReq && !r.settleDone {
			r.peerSettle()
			r.settleDone = true
			continue
		}
		if r.peerDone && len(r.toPeer) == 0 {
			return
		}
		if p.aborted {
			// after an Abort the peer just drains
			if len(r.toPeer) > 0 {
				r.toPeer = r.toPeer[1:]
			} else {
				r.peerBudget = 0
				s.Block("peer-aborted", func() bool { return r.peerDone || (r.settleReq && !r.settleDone) })
			}
			continue
		}
		var moves []string
		if len(r.toPeer) > 0 {
			moves = append(moves, "process", "process", "process")
		}
		if r.peerBudget > 0 && !r.closed {
			moves = append(moves, "bootstrap", "call", "call", "call", "finish", "release")
			if r.hostileBudget > 0 {
				moves = append(moves, "hostile", "hostile")
			}
		}
		if r.pendingTheirQ() {
			moves = append(moves, "return", "return")
		}
		if !r.closed && !r.hostile && p.moveDisembargoPossible() {
			// (not tied to the message budget: by the time a Return has come back the budget is usually spent)
			moves = append(moves, "disembargo", "disembargo")
		}
		if len(p.pendingEcho) > 0 && (len(moves) == 0 || !p.lazyEcho) {
			moves = append(moves, "echo", "echo")
		}
		if len(moves) == 0 {
			simrt.YieldAt("peer-idle")
			continue
		}
		m := moves[s.Choice("peer-move", len(moves))]
		switch m {
		case "process":
			wm := r.toPeer[0]
			r.toPeer = r.toPeer[1:]
			p.process(wm.data)
		case "bootstrap":
			r.peerBudget--
			p.moveBootstrap()
		case "call":
			if p.moveCall() {
				r.peerBudget--
			} else {
				r.peerBudget--
				p.moveBootstrap()
			}
		case "finish":
			if p.moveFinish() {
				r.peerBudget--
			}
		case "release":
			if p.moveRelease() {
				r.peerBudget--
			}
		case "return":
			p.moveReturn()
		case "disembargo":
			p.moveDisembargo()
		case "echo":
			p.moveEcho()
		case "hostile":
			r.hostileBudget--
			r.peerBudget--
			what := p.hostileMove()
			r.desc = append(r.desc, "hostile: "+what)
		}
		p.moves++
	}
}

func (r *run) peerHasMove() bool {
	return len(r.peer.pendingEcho) > 0 || (r.peerBudget > 0 && !r.closed) || r.pendingTheirQ() || (!r.closed && !r.hostile && r.peer.moveDisembargoPossible())
}

func (r *run) pendingTheirQ() bool {
	for _, q := range r.peer.theirQ {
		if !q.returnSent && q.fwd == nil {
			return true
		}
	}
	return false
}

// ---- local callers (application code on the Conn's side calling the peer)

type payloadSpec struct {
	token uint64
	flags uint64
	cap   *capnp.Client
	twice bool // the capability is named by two entries of the capability table (pointers 0 and 1)
}

func (r *run) place(ps payloadSpec) func(capnp.Struct) error {
	return func(st capnp.Struct) error {
		st.SetUint64(0, ps.token)
		st.SetUint64(8, ps.flags)
		if ps.cap != nil {
			id := st.Message().AddCap(ps.cap.AddRef())
			if ps.twice {
				id2 := st.Message().AddCap(ps.cap.AddRef())
				if err := st.SetPtr(1, capnp.NewInterface(st.Segment(), id2).ToPtr()); err != nil {
					return err
				}
			}
			return st.SetPtr(0, capnp.NewInterface(st.Segment(), id).ToPtr())
		}
		return nil
	}
}

func (r *run) callerTask(id int, nops int) {
	s := r.s
	defer func() { r.callersDone++ }()
	ctx := context.Background()
	var clients []*capnp.Client // imports we hold
	var outs []*localCall
	finish := func(lc *localCall) {
		if lc.done {
			return
		}
		st, err := lc.ans.Struct()
		lc.done = true
		lc.resolved++
		r.checkLocalResult(lc, st, err)
		// capability in the result: keep a reference to the import
		if err == nil && s.Choice("keep-result-cap", 2) == 0 {
			if p, perr := st.Ptr(0); perr == nil && p.Interface().IsValid() {
				if c := p.Interface().Client(); c != nil {
					clients = append(clients, c.AddRef())
				}
			}
		}
		lc.rel()
		lc.cancel()
	}
	for i := 0; i < nops && !s.Failed(); i++ {
		r.ops++
		// (tapes of the echo=defer generation draw from 11: 9 and 10 are pipelined calls as well, so that
		// one answer often has several calls pipelined on it, before and after its Return)
		nOps := 9
		if r.deferEcho {
			nOps = 11
		}
		op := s.Choice("caller-op", nOps)
		if op >= 9 {
			op = 4
		}
		switch {
		case op == 0 || len(clients) == 0:
			s.Logf("caller %d: Bootstrap", id)
			c := r.conn.Bootstrap(ctx)
			if r.guard {
				// known finding (C11): a call through a pipelined client that arrives while its promise is
				// pending resolution deadlocks; the bootstrap client is such a client until it resolves
				_ = c.Resolve(ctx)
			}
			clients = append(clients, c)
		case op <= 3: // call on an import
			c := clients[s.Choice("caller-client", len(clients))]
			lc := &localCall{token: r.newToken(), via: "import"}
			lc.ctx, lc.cancel = context.WithCancel(ctx)
			r.locals[lc.token] = lc
			ps := payloadSpec{token: lc.token}
			// (values 4..7: as 0..3, and the capability appears twice in the payload - two descriptors, two
			// references, given back together by a Return with releaseParamCaps)
			cpc := s.Choice("caller-param-cap", 8)
			ps.twice = cpc >= 4
			cpc %= 4
			if r.capsBias && cpc >= 2 {
				cpc -= 2
			}
			switch cpc {
			case 0:
				ap := r.apps[s.Choice("caller-app", len(r.apps))]
				if ap.handedOver {
					ap = r.apps[0] // (the application kept no reference of its own to that one)
				}
				if !ap.handedOver {
					ps.cap = ap.client // a local capability: becomes an export
				}
			case 1:
				ps.cap = clients[s.Choice("caller-client2", len(clients))] // an import: receiverHosted
			}
			s.Logf("caller %d: SendCall token=%d", id, lc.token)
			lc.ans, lc.rel = c.SendCall(lc.ctx, capnp.Send{Method: capnp.Method{InterfaceID: ifaceID, MethodID: 0}, ArgsSize: capnp.ObjectSize{DataSize: 16, PointerCount: 2}, PlaceArgs: r.place(ps)})
			outs = append(outs, lc)
		case op == 4: // pipelined call on an outstanding answer
			var cands []*localCall
			for _, lc := range outs {
				if !lc.done {
					cands = append(cands, lc)
				}
			}
			if len(cands) == 0 {
				continue
			}
			base := cands[s.Choice("caller-base", len(cands))]
			// (tapes of the echo=defer generation: calls are pipelined through result pointer 0 or 1, so
			// that one answer has several called paths - the peer may answer with a capability of its own
			// in pointer 0 and one of the Conn's exports in pointer 1, and each path needs its own embargo)
			var path uint16
			if r.deferEcho {
				// (the second pointer is preferred once the first has been called: "an earlier called
				// path that is not the loop-back, then several calls on the one that is" is the shape
				// that needs one embargo per path)
				switch n := s.Choice("caller-path", 4); {
				case base.npiped[0] > 0 && n != 0, base.npiped[0] == 0 && n >= 2:
					path = 1
				}
			}
			lc := &localCall{token: r.newToken(), via: "pipeline", base: base, path: path, seq: base.npiped[path]}
			base.npiped[path]++
			if path == 1 {
				s.Probe("local_pipelined_call_on_second_pointer")
			}
			if base.their != nil && base.their.returnSent {
				s.Probe("local_pipelined_call_after_peer_returned")
			}
			lc.ctx, lc.cancel = context.WithCancel(ctx)
			r.locals[lc.token] = lc
			s.Logf("caller %d: PipelineSend token=%d on answer of %d", id, lc.token, base.token)
			lc.ans, lc.rel = base.ans.PipelineSend(lc.ctx, []capnp.PipelineOp{{Field: path}}, capnp.Send{Method: capnp.Method{InterfaceID: ifaceID, MethodID: 0}, ArgsSize: capnp.ObjectSize{DataSize: 16, PointerCount: 2}, PlaceArgs: r.place(payloadSpec{token: lc.token})})
			outs = append(outs, lc)
			s.Probe("local_pipelined_call")
		case op == 5: // wait for a result
			for _, lc := range outs {
				if !lc.done {
					finish(lc)
					break
				}
			}
		case op == 6: // cancel a call
			for _, lc := range outs {
				if !lc.done && !lc.cancelled {
					lc.cancelled = true
					lc.cancel()
					s.Fault("ctx_cancel")
					break
				}
			}
		case op == 7 && len(clients) > 1: // release an import
			k := s.Choice("caller-release", len(clients))
			clients[k].Release()
			clients = append(clients[:k], clients[k+1:]...)
		case op == 8: // AddRef / Release churn on an import (races with arriving references)
			c := clients[s.Choice("caller-client", len(clients))]
			d := c.AddRef()
			simrt.YieldAt("caller-churn")
			d.Release()
		}
	}
	for _, lc := range outs {
		if s.Failed() {
			return
		}
		finish(lc)
	}
	for _, c := range clients {
		if s.Failed() {
			return
		}
		c.Release()
	}
}

// checkLocalResult: a local call resolves exactly once with what the peer sent.
func (r *run) checkLocalResult(lc *localCall, st capnp.Struct, err error) {
	s := r.s
	q := lc.their
	s.Logf("local call %d resolved err=%v", lc.token, err)
	if ac := r.appCalls[lc.token]; q == nil && ac != nil {
		// never sent to the peer: the answer it was pipelined on had resolved to a local capability
		s.Probe("local_pipelined_call_served_locally")
		switch {
		case err == nil && (!ac.done || ac.err != nil || st.Uint64(0) != ac.retToken):
			r.mfail("local_wrong_result", "rpc.go:(*Conn).handleReturn", fmt.Sprintf("local call %d was served by application capability %d (done=%v err=%v token %d) but resolved successfully with token %d", lc.token, ac.app, ac.done, ac.err, ac.retToken, st.Uint64(0)))
		case err != nil && ac.done && ac.err == nil && !lc.cancelled && r.connOpen():
			r.mfail("local_wrong_result", "rpc.go:(*Conn).handleReturn", fmt.Sprintf("local call %d was served successfully by application capability %d but resolved with error %v", lc.token, ac.app, err))
		}
		return
	}
	switch {
	case err == nil:
		if q == nil || !q.returnSent || q.retExc {
			r.mfail("local_wrong_result", "rpc.go:(*Conn).handleReturn", fmt.Sprintf("local call %d resolved successfully although the peer did not return results for it (sent=%v)", lc.token, q != nil))
			return
		}
		if got := st.Uint64(0); got != q.retToken {
			r.mfail("local_wrong_result", "rpc.go:(*Conn).handleReturn", fmt.Sprintf("local call %d resolved with token %d, the peer returned %d", lc.token, got, q.retToken))
		}
	default:
		if q != nil && q.returnSent && !q.retExc && q.retToken != 0 && !lc.cancelled && r.connOpen() && !r.hostile {
			// the peer returned results, nothing was cancelled and the connection is alive: the error is wrong
			if !strings.Contains(err.Error(), "peer-exception") {
				s.Probe("local_call_failed_despite_results")
			}
		}
	}
}

// ---- settle and close

func (r *run) idleHook(s *simrt.Sched) bool {
	// release one slow application call (oldest first) so that everything can finish
	// (but not a call the peer made once the application has called Close: cancelling that one is
	// the Conn's job, and helping here is what hid a seeded change that detached incoming calls
	// from the connection's context)
	for _, ac := range r.started {
		if ac.waiting && !ac.release && !(r.closed && r.locals[ac.token] == nil) {
			ac.release = true
			s.Fault("app_release")
			return true
		}
	}
	// Under injected faults (or a hostile history) the Conn may legitimately never answer a call the
	// peer reflected to it (it keeps a placeholder answer until the caller cancels).  A peer that is
	// otherwise stuck gives up on such a call: it finishes its question and answers the Conn's
	// pipelined question with an exception - the environment assumption "the peer eventually
	// answers" stays true by construction.
	if r.peer != nil && (r.faultsPlanned > 0 || r.hostile) && r.connOpen() && !r.closed {
		for _, tq := range r.peer.theirOrder {
			if fq := tq.fwd; fq != nil && !tq.returnSent && !fq.returned {
				if r.giveUp == nil && !r.peerDone {
					s.Fault("peer_gives_up_reflected_call")
					r.giveUp = tq // carried out by the peer task (library code must not run on the scheduler)
					return true
				}
			}
		}
	}
	return false
}

// Run: tapes generated from now on carry echo=defer (the model peer sends the echo of a
// Disembargo as a move of its own instead of at once); older tapes keep their meaning.
func (e Engine) Run(t *testing.T, tape *simrt.Tape, opt worker.Options) *worker.Outcome {
	fresh := !tape.Replaying()
	if fresh {
		ps := map[string]string{"echo": "defer"}
		for k, v := range opt.Params {
			ps[k] = v
		}
		opt.Params = ps
	}
	oc := e.run0(t, tape, opt)
	if fresh && oc != nil {
		if oc.ReplayParams == nil {
			oc.ReplayParams = map[string]string{}
		}
		oc.ReplayParams["echo"] = "defer"
	}
	return oc
}

func (Engine) run0(t *testing.T, tape *simrt.Tape, opt worker.Options) *worker.Outcome {
	if opt.Property == "C09" {
		return runSweep(t, tape, opt)
	}
	topo := ""
	if opt.Property == "C06" || opt.Property == "C07" {
		// One run in four joins two real Conns (topology B) instead of a Conn and the model peer.
		// The draw is on the tape; tapes recorded before topology B existed carry no "topo"
		// parameter and replay as topology A without consuming a draw.
		topo = opt.Params["topo"]
		switch {
		case topo != "":
			tape.Choice("topology", 4)
		case !tape.Replaying():
			topo = "A"
			if tape.Choice("topology", 4) == 0 {
				topo = "B"
			}
		}
	}
	if topo == "B" {
		oc, _ := singleB(t, tape, opt, faultCase{})
		return oc
	}
	oc, _ := single(t, tape, opt, faultCase{})
	if topo != "" {
		oc.ReplayParams = map[string]string{"topo": topo}
		if opt.Property == "C07" {
			oc.ReplayParams["bias"] = "caps"
		}
	}
	return oc
}

// single executes one simulated session.
func single(t *testing.T, tape *simrt.Tape, opt worker.Options, fc faultCase) (*worker.Outcome, *run) {
	r := &run{prop: opt.Property, opt: opt, appCalls: map[uint64]*appCall{}, sentTo: map[string][]uint64{}, locals: map[uint64]*localCall{}, fault: fc}
	// C07 biases the workload towards capability traffic; tapes recorded before the bias existed
	// carry no "bias" parameter and keep their meaning
	r.deferEcho = opt.Params["echo"] == "defer"
	r.capsBias = opt.Property == "C07" && (opt.Params["bias"] == "caps" || (opt.Params["topo"] == "" && !tape.Replaying()))
	if fc.kind != "" {
		r.faultsPlanned = 1
	}
	body := func(s *simrt.Sched) {
		r.s = s
		r.mainTask()
	}
	res := simrt.Run(t, simrt.Config{Tape: tape, MaxSteps: 60000, Trace: opt.Trace, OnIdle: r.idleHook, MaxSim: 10 * time.Minute}, body, nil)
	oc := &worker.Outcome{Res: res, Verdict: res.Verdict, Ops: r.ops, Probes: res.Probes, Faults: res.Faults}
	oc.NonTrivial = res.Switches > 0 || len(res.Faults) > 0
	oc.Key = res.TraceHash
	sent := 0
	if r.peer != nil {
		sent = r.peer.sent
	}
	oc.Sample = map[string]interface{}{"scenario": r.desc, "peer_messages": sent, "app_calls": len(r.appCalls), "local_calls": len(r.locals), "steps": res.Steps, "switches": res.Switches, "faults": res.Faults}
	if oc.Verdict != nil {
		oc.Pattern = oc.Verdict.Oracle
		if len(res.StuckSites) > 0 {
			oc.Pattern = "stuck:" + strings.Join(res.StuckSites, "|")
		}
	}
	return oc, r
}

// runSweep: C09.  Stage 1 runs the scenario of this seed fault-free and counts its transport
// operations and steps; stage 2 re-runs the recorded scenario once per (operation index x fault
// kind) and per sampled step for cancellation and Close.
func runSweep(t *testing.T, tape *simrt.Tape, opt worker.Options) *worker.Outcome {
	// One scenario in five joins two real Conns (topology B) with the fault on one side's transport.
	// The draw is the first on the tape; tapes recorded before carry no "topo" parameter.
	// (the tape stored for one sweep case starts after that draw)
	topo := opt.Params["topo"]
	drew := false
	switch {
	case opt.Params["fault"] != "":
	case topo != "":
		tape.Choice("topology", 5)
		drew = true
	case !tape.Replaying():
		topo = "A"
		if tape.Choice("topology", 5) == 0 {
			topo = "B"
		}
		drew = true
	}
	if topo == "B" {
		return runSweepB(t, tape, opt, drew)
	}
	if f := opt.Params["fault"]; f != "" {
		oc, _ := single(t, tape, opt, parseFault(f)) // replay of one sweep case
		return oc
	}
	base, r0 := single(t, tape, opt, faultCase{})
	if topo != "" {
		base.ReplayParams = map[string]string{"topo": topo}
	}
	if base.Verdict != nil || r0.tr == nil {
		return base
	}
	recs := append([]simrt.Rec(nil), tape.Records()...)
	if drew {
		recs = recs[1:]
	}
	var cases []faultCase
	for i := 1; i <= r0.tr.nNew; i++ {
		cases = append(cases, faultCase{"newmsg_err", i})
	}
	for i := 1; i <= r0.tr.nSend; i++ {
		cases = append(cases, faultCase{"send_err", i}, faultCase{"send_stall", i})
	}
	for i := 1; i <= r0.tr.nRecv; i++ {
		cases = append(cases, faultCase{"recv_err", i}, faultCase{"recv_eof", i})
	}
	// ... and the same receive faults on a transport whose Close then fails as well (a connection
	// the peer has reset): the receive loop starts the teardown, Transport.Close returns an error,
	// and Close / Done must still complete
	for i := 1; i <= r0.tr.nRecv; i++ {
		cases = append(cases, faultCase{"recv_err_cl", i}, faultCase{"recv_eof_cl", i})
	}
	if r0.pipe != nil {
		cases = nil
		for i := 1; i <= r0.pipe.nWrite; i++ {
			cases = append(cases, faultCase{"short_write", i}, faultCase{"write_err_n0", i})
		}
		for i := 1; i <= r0.pipe.nRead; i++ {
			cases = append(cases, faultCase{"read_err", i}, faultCase{"eof", i})
		}
		if r0.pipe.deadlines {
			for i := 1; i <= r0.pipe.nWrite; i++ {
				cases = append(cases, faultCase{"write_stall", i})
			}
		}
	}
	steps := base.Res.Steps
	stride := 1
	if steps > 60 {
		stride = steps / 60
	}
	for j := 1; j <= steps; j += stride {
		cases = append(cases, faultCase{"close", j}, faultCase{"close2", j}, faultCase{"cancel", j})
	}
	total := len(cases)
	if len(cases) > 600 {
		// very long scenarios: keep every k-th case so that one sweep stays bounded (reported in the evidence)
		k := (len(cases) + 599) / 600
		var kept []faultCase
		for i, c := range cases {
			if i%k == 0 {
				kept = append(kept, c)
			}
		}
		cases = kept
	}
	agg := &worker.Outcome{Res: base.Res, Probes: map[string]int{}, Faults: map[string]int{}, NonTrivial: true, Key: base.Key}
	if total != len(cases) {
		agg.Probes["sweep_scenarios_thinned"]++
	}
	for k, v := range base.Probes {
		agg.Probes[k] += v
	}
	fired := 0
	for _, fc := range cases {
		oc, _ := single(t, simrt.ReplayTape(recs), opt, fc)
		agg.Ops++
		for k, v := range oc.Faults {
			agg.Faults[k] += v
			if k == strings.TrimSuffix(fc.kind, "_cl") || (k == "close" && fc.kind == "close2") {
				fired++
			}
		}
		for k, v := range oc.Probes {
			agg.Probes[k] += v
		}
		if oc.Verdict != nil {
			oc.ReplayTape = recs
			oc.ReplayParams = map[string]string{"fault": fc.String()}
			if topo != "" {
				oc.ReplayParams["topo"] = topo
			}
			oc.Pattern = oc.Pattern + " fault=" + fc.kind
			oc.Sample = map[string]interface{}{"scenario": r0.desc, "fault": fc.String()}
			return oc
		}
		agg.Key = agg.Key*1099511628211 ^ oc.Key
	}
	agg.Probes["sweep_cases"] += len(cases)
	agg.Probes["sweep_cases_fault_fired"] += fired
	agg.Probes["sweep_scenarios"]++
	tops := map[string]int{"new": r0.tr.nNew, "send": r0.tr.nSend, "recv": r0.tr.nRecv}
	if r0.pipe != nil {
		tops = map[string]int{"write": r0.pipe.nWrite, "read": r0.pipe.nRead}
		agg.Probes["sweep_scenarios_stream_transport"]++
	}
	agg.Sample = map[string]interface{}{"scenario": r0.desc, "transport_ops": tops, "steps": steps, "sweep_cases": len(cases), "cases_in_which_the_fault_fired": fired}
	return agg
}

func (r *run) mainTask() {
	s := r.s
	r.peer = newPeer(r, &r.toConn)
	if r.deferEcho {
		r.peer.lazyEcho = s.Chance("lazy-echo", 1, 2)
	}
	if r.opt.Avoid["pending-resolution-call"] {
		r.guard = s.Chance("guard-on", 7, 8)
	}
	gone := false
	r.tr = &SimTransport{name: "conn", s: s, inbox: &r.toConn, outbox: &r.toPeer, peerGone: &gone, onRecv: r.peer.delivered}
	if strings.HasSuffix(r.fault.kind, "_cl") {
		r.tr.plan.closeErr = true
	}
	switch strings.TrimSuffix(r.fault.kind, "_cl") {
	case "newmsg_err":
		r.tr.plan.newMsgErrAt = r.fault.at
	case "send_err":
		r.tr.plan.sendErrAt = r.fault.at
	case "send_stall":
		r.tr.plan.sendStallAt = r.fault.at
	case "recv_err":
		r.tr.plan.recvErrAt = r.fault.at
	case "recv_eof":
		r.tr.plan.recvEOFAt = r.fault.at
	}
	boot := r.newAppCap()
	// extra-apps 3..5: the same 0..2 extra capabilities, and the application keeps no reference of
	// its own to the bootstrap capability - the Conn owns it, which is the usual way to use
	// Options.BootstrapClient (its Shutdown then runs inside the Conn's teardown paths)
	extra := s.Choice("extra-apps", 6)
	if extra >= 3 {
		extra -= 3
		boot.dropped, boot.handedOver = true, true
		s.Probe("bootstrap_capability_owned_by_the_connection")
	}
	for i := extra; i > 0; i-- {
		r.newAppCap()
	}
	var transport rpc.Transport = r.tr
	topo := "A"
	if r.prop == "C09" && s.Choice("topology", 3) == 0 {
		// topology C: the real stream transport over a byte pipe
		topo = "C"
		// (values 5..9 select the packed stream transport with the same chunk sizes; tapes recorded
		// before it was added keep their meaning)
		// (values 10..19: the same again over a stream with a working SetReadDeadline)
		pc := s.Choice("pipe-chunk", 20)
		r.pipe = &simPipe{r: r, s: s, chunk: []int{0, 1, 7, 8, 64}[pc%5], packed: pc%10 >= 5, deadlines: pc >= 10}
		switch r.fault.kind {
		case "short_write":
			r.pipe.shortWriteAt, r.pipe.shortKeep = r.fault.at, 1+s.Choice("short-keep", 24)
		case "write_err_n0":
			r.pipe.writeErr0At = r.fault.at
		case "read_err":
			r.pipe.readErrAt = r.fault.at
		case "eof":
			r.pipe.eofAt = r.fault.at
		case "write_stall":
			// (at%4 bytes of the stalled write get through: 0 keeps frame boundaries, 1-3 tear a frame)
			r.pipe.writeStallAt, r.pipe.stallKeep = r.fault.at, r.fault.at%4
		}
		var stream io.ReadWriteCloser = r.pipe
		if r.pipe.deadlines {
			stream = simPipeDL{r.pipe}
			s.Probe("stream_with_read_deadlines")
		}
		transport = rpc.NewStreamTransport(stream)
		if r.pipe.packed {
			topo = "C (packed)"
			transport = rpc.NewPackedStreamTransport(stream)
			s.Probe("packed_stream_transport")
		}
	}
	bc := boot.client
	if !boot.handedOver {
		bc = boot.client.AddRef()
	}
	r.conn = rpc.NewConn(transport, &rpc.Options{BootstrapClient: bc, ErrorReporter: reporter{r}})
	r.peerBudget = 2 + s.Choice("peer-budget", 10)
	if r.prop == "C08" {
		r.hostile = true
		r.hostileBudget = 1 + s.Choice("hostile-budget", 3)
		r.peerBudget += r.hostileBudget
	}
	r.ncallers = s.Choice("ncallers", 3)
	r.desc = append(r.desc, fmt.Sprintf("topology "+topo+": peer budget %d, %d local callers, %d app caps", r.peerBudget, r.ncallers, len(r.apps)))
	// (once the application has called Close, a slow call that the peer made is the Conn's to
	// cancel - every incoming call's context ends with the connection; the environment only goes
	// on releasing calls that local callers made, which may have been served without the Conn)
	helps := func(ac *appCall) bool {
		return ac.waiting && !ac.release && !(r.closed && r.locals[ac.token] == nil)
	}
	s.AddEvent("release-slow-call", func() bool {
		for _, ac := range r.started {
			if helps(ac) {
				return true
			}
		}
		return false
	}, func() {
		for _, ac := range r.started {
			if helps(ac) {
				ac.release = true
				return
			}
		}
	})
	switch r.fault.kind {
	case "close", "close2":
		s.Spawn("closer", func() {
			s.Block("close-at", func() bool { return s.Steps() >= r.fault.at || r.allDone })
			if r.closed || r.allDone {
				return
			}
			r.closed = true
			s.Fault("close")
			s.Logf("closer: Close at step %d", s.Steps())
			_ = r.conn.Close()
			r.closeRets++
			if r.fault.kind == "close2" {
				s.Fault("close_again")
				_ = r.conn.Close()
				r.closeRets++
				// and an operation issued after Close must come back with an error, not hang
				c := r.conn.Bootstrap(context.Background())
				ans, rel := c.SendCall(context.Background(), capnp.Send{Method: capnp.Method{InterfaceID: ifaceID}})
				_, _ = ans.Struct()
				rel()
				c.Release()
			}
			r.peerDone = true
		})
	case "cancel":
		s.Spawn("canceller", func() {
			s.Block("cancel-at", func() bool { return s.Steps() >= r.fault.at || r.allDone })
			for tk := uint64(1); tk <= r.nextTok; tk++ {
				if lc := r.locals[tk]; lc != nil && lc.cancel != nil && !lc.done {
					lc.cancelled = true
					lc.cancel()
					s.Fault("cancel")
				}
			}
		})
	}
	s.Spawn("peer", r.peerTask)
	for i := 0; i < r.ncallers; i++ {
		i := i
		nops := 2 + s.Choice("caller-nops", 8)
		s.Spawn(fmt.Sprintf("caller%d", i), func() { r.callerTask(i, nops) })
	}
	// wait until the workload is over: callers finished, peer out of budget, nothing in flight
	s.Block("workload-done", func() bool {
		if !r.connOpen() {
			return r.callersDone == r.ncallers
		}
		return r.callersDone == r.ncallers && r.peerBudget == 0 && len(r.toPeer) == 0 && len(r.toConn) == 0 && !r.pendingTheirQ()
	})
	if s.Failed() {
		return
	}
	if !r.connOpen() && !r.hostile && r.faultsPlanned == 0 {
		s.Fail("conn_died", "rpc.go:(*Conn).receive", fmt.Sprintf("the connection shut itself down during a spec-conforming, fault-free session: %v", r.reports))
		return
	}
	r.settleAndClose()
}

// settleAndClose: optional orderly wind-down by the peer, then Close and the end-of-run accounting.
func (r *run) settleAndClose() {
	s := r.s
	p := r.peer
	orderly := s.Choice("orderly", 3) != 0
	if orderly && !p.aborted && !r.closed && r.connOpen() && !r.hostile {
		// the peer (in its own task) finishes its questions and releases everything it holds
		r.settleReq = true
		s.Block("settled", func() bool { return r.settleDone })
		if s.Failed() {
			return
		}
		if !r.connOpen() {
			if !r.hostile && r.faultsPlanned == 0 {
				s.Fail("conn_died", "rpc.go:(*Conn).receive", fmt.Sprintf("the connection shut itself down during a spec-conforming session: %v", r.reports))
				return
			}
		} else if r.faultsPlanned == 0 {
			for _, id := range p.order {
				if q := p.myQ[id]; q.returns != 1 {
					s.Fail("return_missing", "answer.go:(*answer).Return", fmt.Sprintf("question %d (%s, token %d, target %s) received %d Returns although the connection is alive and every implementation has returned", q.id, q.kind, q.token, q.target, q.returns))
					return
				}
			}
		}
		// C07: with every question finished and every export released by the peer, the only holders left are
		// the harness' own references: drop them; every non-bootstrap application capability must now be released.
		if r.faultsPlanned == 0 && r.connOpen() {
			r.checkQuiescentTables()
		}
	}
	if s.Failed() {
		return
	}
	if r.hostile && !s.Failed() {
		r.livenessProbe()
		if s.Failed() {
			return
		}
	}
	r.allDone = true
	if !r.closed {
		r.closed = true
		s.Logf("main: Close")
		err := r.conn.Close()
		r.closeRets++
		s.Logf("main: Close returned %v", err)
	} else {
		s.Block("closer-done", func() bool { return r.closeRets > 0 })
	}
	r.closeRet = true
	r.peerDone = true
	r.afterClose()
}

// peerSettle runs in the peer task: finish every question, release every export, let everything drain.
func (r *run) peerSettle() {
	s := r.s
	p := r.peer
	quiet := func() {
		for i := 0; i < 50 && !s.Failed(); i++ {
			for len(r.toPeer) > 0 && !s.Failed() {
				wm := r.toPeer[0]
				r.toPeer = r.toPeer[1:]
				p.process(wm.data)
			}
			if !r.connOpen() {
				return
			}
			// answer whatever the Conn still asks, and send the echoes the peer still owes
			for r.pendingTheirQ() && !s.Failed() {
				p.moveReturn()
			}
			for len(p.pendingEcho) > 0 && !s.Failed() {
				p.moveEcho()
			}
			s.Sleep(100 * time.Millisecond) // fake time: everything else runs until it blocks
			if len(r.toPeer) == 0 && len(r.toConn) == 0 && !r.pendingTheirQ() && !p.forwardPending() && len(p.pendingEcho) == 0 {
				return
			}
		}
	}
	if r.probeSend {
		r.probeQ = p.nextQ
		p.moveBootstrap()
	}
	quiet()
	if r.probeOnly {
		return
	}
	for _, id := range p.order {
		q := p.myQ[id]
		if !q.finishSent && !s.Failed() {
			p.finish(q, s.Choice("peer-release-result-caps", 2) == 1)
		}
	}
	quiet()
	for _, e := range p.heldExports() {
		if s.Failed() {
			return
		}
		n := e.refs
		e.refs = 0
		r.exportRefsChanged(e)
		p.send(fmt.Sprintf("Release id=%d count=%d (final)", e.id, n), p.build(releaseMsg(e.id, uint32(n))))
	}
	quiet()
}

// livenessProbe (C08): if the connection survived the hostile messages it must still answer a
// well-formed Bootstrap - that is what distinguishes "tolerated" from "wedged".
func (r *run) livenessProbe() {
	s := r.s
	p := r.peer
	// let the reactions to the hostile messages play out
	r.settleReq = true
	r.probeOnly = true
	s.Block("probe-settled", func() bool { return r.settleDone })
	if s.Failed() || !r.connOpen() || p.aborted {
		if p.aborted {
			s.Probe("hostile_answered_with_abort")
		}
		return
	}
	s.Probe("hostile_tolerated_connection_alive")
	r.settleDone = false
	r.probeSend = true
	s.Block("probe-answered", func() bool { return r.settleDone })
	if s.Failed() || !r.connOpen() || p.aborted {
		return
	}
	q := p.myQ[r.probeQ]
	if q == nil || q.returns != 1 {
		s.Fail("wedged", "rpc.go:(*Conn).receive", fmt.Sprintf("after the hostile messages %v the connection stayed up but a well-formed Bootstrap (question %d) was never answered", r.desc, r.probeQ))
	}
}

func (r *run) checkQuiescentTables() {
	s := r.s
	v := r.conn.SimView()
	if v.Answers != 0 || v.Exports != 0 || v.Questions != 0 || v.Embargoes != 0 {
		// imports may legitimately remain while local callers hold clients; they have released them by now
		s.Fail("table_leak", "rpc.go:(*Conn).handleFinish", fmt.Sprintf("after every question was finished and every export released, the Conn's tables still hold answers=%d exports=%d questions=%d embargoes=%d imports=%d", v.Answers, v.Exports, v.Questions, v.Embargoes, v.Imports))
		return
	}
	kept := 0
	if r.apps[0].kept != nil {
		kept = 1 // the bootstrap capability holds on to one import until it is shut down
	}
	if v.Imports != kept {
		s.Fail("import_leak", "import.go:(*importClient).Shutdown", fmt.Sprintf("all local references to imports were released but the import table still has %d entries", v.Imports))
		return
	}
	for id := uint32(0); id < r.peer.nextExp; id++ {
		e := r.peer.mine[id]
		if e != nil && kept == 1 && id == r.apps[0].keptExport && e.refs > 0 {
			continue
		}
		if e != nil && e.refs != 0 {
			s.Fail("release_count_mismatch", "import.go:(*importClient).Shutdown", fmt.Sprintf("all local references were released but the Conn still holds %d reference(s) on the peer's export %d (no Release sent)", e.refs, e.id))
			return
		}
	}
	s.Probe("quiescent_tables_checked")
	// drop the harness' references of non-bootstrap application capabilities: they must be shut down now
	for _, a := range r.apps[1:] {
		a.dropped = true
		if !a.handedOver {
			a.client.Release()
		}
		if a.shutdown != 1 && !s.Failed() {
			s.Fail("export_leak", "export.go:(*Conn).releaseExport", fmt.Sprintf("application capability %d is still referenced by the Conn although the peer released every export and finished every question", a.id))
			return
		}
	}
}

func (r *run) afterClose() {
	s := r.s
	if s.Failed() {
		return
	}
	// drop the harness' own references
	for _, a := range r.apps {
		if !a.dropped {
			a.dropped = true
			a.client.Release()
		}
	}
	s.Sleep(time.Second)
	if s.Failed() {
		return
	}
	for _, a := range r.apps {
		if a.shutdown != 1 && r.prop != "C08" {
			s.Fail("shutdown_count", "rpc.go:(*Conn).shutdown", fmt.Sprintf("after Close and after the application dropped its own references, application capability %d has been released %d times (want exactly 1)", a.id, a.shutdown))
			return
		}
	}
	for tk := uint64(1); tk <= r.nextTok; tk++ {
		if lc := r.locals[tk]; lc != nil && lc.ans != nil && !lc.done {
			s.Fail("local_call_unresolved", "question.go:(*question).handleCancel", fmt.Sprintf("local call %d never resolved", lc.token))
			return
		}
	}
	if n := s.SUTPending(); n > 0 {
		s.Fail("goroutine_leak", "rpc.go:(*Conn).shutdown", fmt.Sprintf("%d goroutine(s) started by the connection are still alive after Close returned: %v", n, s.Stuck(false)))
		return
	}
	if held := s.HeldMutexes(); len(held) > 0 {
		s.Fail("lock_leak", "rpc.go:(*Conn).Close", fmt.Sprintf("after Close returned a lock is still held: %v", held))
		return
	}
	if v := r.conn.SimView(); v.SenderLocked {
		s.Fail("lock_leak", "rpc.go:(*Conn).Close", "after Close returned the sender lock is still held")
		return
	}
	if r.prop != "C06" {
		return
	}
	// ordering over the whole run: per target designator, the application saw the calls in send order
	pos := map[uint64]int{}
	for i, ac := range r.started {
		pos[ac.token] = i
	}
	var tgts []string
	for tgt := range r.sentTo {
		tgts = append(tgts, tgt)
	}
	sort.Strings(tgts)
	for _, tgt := range tgts {
		toks := r.sentTo[tgt]
		last := -1
		var lastTok uint64
		for _, tk := range toks {
			i, ok := pos[tk]
			if !ok {
				continue
			}
			if i < last {
				s.Fail("order", "rpc.go:(*Conn).handleCall", fmt.Sprintf("calls addressed to %s were sent in the order %v but the application saw token %d before token %d", tgt, toks, tk, lastTok))
				return
			}
			last, lastTok = i, tk
		}
	}
}

// runSweepB: the per-operation sweep over a two-Conn scenario; the fault hits side L's transport
// (or L is closed / every call is cancelled at a step), side R only sees the consequences.
func runSweepB(t *testing.T, tape *simrt.Tape, opt worker.Options, drew bool) *worker.Outcome {
	if f := opt.Params["fault"]; f != "" {
		oc, _ := singleB(t, tape, opt, parseFault(f))
		oc.ReplayParams = map[string]string{"topo": "B", "fault": f}
		return oc
	}
	base, b0 := singleB(t, tape, opt, faultCase{})
	if base.Verdict != nil || b0.side[0] == nil || b0.side[0].tr == nil {
		return base
	}
	recs := append([]simrt.Rec(nil), tape.Records()...)
	if drew {
		recs = recs[1:]
	}
	tr := b0.side[0].tr
	var cases []faultCase
	for i := 1; i <= tr.nNew; i++ {
		cases = append(cases, faultCase{"newmsg_err", i})
	}
	for i := 1; i <= tr.nSend; i++ {
		cases = append(cases, faultCase{"send_err", i}, faultCase{"send_stall", i})
	}
	for i := 1; i <= tr.nRecv; i++ {
		cases = append(cases, faultCase{"recv_err", i}, faultCase{"recv_eof", i})
	}
	steps := base.Res.Steps
	stride := 1
	if steps > 40 {
		stride = steps / 40
	}
	for j := 1; j <= steps; j += stride {
		cases = append(cases, faultCase{"close", j}, faultCase{"close2", j}, faultCase{"cancel", j})
	}
	total := len(cases)
	if len(cases) > 300 {
		k := (len(cases) + 299) / 300
		var kept []faultCase
		for i, c := range cases {
			if i%k == 0 {
				kept = append(kept, c)
			}
		}
		cases = kept
	}
	agg := &worker.Outcome{Res: base.Res, Probes: map[string]int{}, Faults: map[string]int{}, NonTrivial: true, Key: base.Key}
	if total != len(cases) {
		agg.Probes["sweep_scenarios_thinned"]++
	}
	for k, v := range base.Probes {
		agg.Probes[k] += v
	}
	fired := 0
	for _, fc := range cases {
		oc, _ := singleB(t, simrt.ReplayTape(recs), opt, fc)
		agg.Ops++
		for k, v := range oc.Faults {
			agg.Faults[k] += v
			if k == fc.kind || (k == "close" && fc.kind == "close2") {
				fired++
			}
		}
		for k, v := range oc.Probes {
			agg.Probes[k] += v
		}
		if oc.Verdict != nil {
			oc.ReplayTape = recs
			oc.ReplayParams = map[string]string{"topo": "B", "fault": fc.String()}
			oc.Pattern = oc.Pattern + " fault=" + fc.kind
			oc.Sample = map[string]interface{}{"scenario": b0.desc, "fault": fc.String()}
			return oc
		}
		agg.Key = agg.Key*1099511628211 ^ oc.Key
	}
	agg.Probes["sweep_cases"] += len(cases)
	agg.Probes["sweep_cases_fault_fired"] += fired
	agg.Probes["sweep_scenarios"]++
	agg.Probes["sweep_scenarios_two_conns"]++
	agg.Sample = map[string]interface{}{"scenario": b0.desc, "transport_ops_L": map[string]int{"new": tr.nNew, "send": tr.nSend, "recv": tr.nRecv}, "steps": steps, "sweep_cases": len(cases), "cases_in_which_the_fault_fired": fired}
	return agg
}
