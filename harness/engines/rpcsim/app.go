package rpcsim

import (
	"context"
	"fmt"

	capnp "capnproto.org/go/capnp/v3"
	"capnproto.org/go/capnp/v3/server"
	"capnproto.org/go/capnp/v3/simrt"
)

// Application capabilities hosted on the Conn's side are real server.Server
// objects (so the answer queue and pipelining are the library's) whose method
// implementation and Shutdowner are harness code.

type appCap struct {
	r        *run
	id       int
	client   *capnp.Client // the harness' own reference
	shutdown int
	dropped  bool // harness reference released
	handedOver bool // the harness' only reference went into a result message
	kept       *capnp.Client // a capability of the peer the application holds on to until it is shut down
	keptExport uint32        // ... and the peer's export id behind it
}

type appCall struct {
	token    uint64
	app      int
	flags    uint64
	startSeq uint64
	done     bool
	err      error
	retToken uint64
	waiting  bool
	release  bool
	gotCap   string
	putApp   int // application capability placed in result pointer 0 (-1: none or not an application capability)
	ctx      context.Context
}

func (a *appCap) Shutdown() {
	r := a.r
	a.shutdown++
	r.s.Logf("app cap %d Shutdown (#%d)", a.id, a.shutdown)
	if k := a.kept; k != nil {
		// a Shutdown hook that lets go of a capability imported over the same connection: it runs
		// inside the Conn's own teardown, which therefore must not hold any Conn lock around it
		a.kept = nil
		r.s.Probe("shutdown_hook_releases_an_import")
		k.Release()
	}
	if a.shutdown > 1 {
		r.s.Fail("shutdown_twice", "rpc.go:(*Conn).shutdown", fmt.Sprintf("application capability %d was released twice (Shutdown ran %d times)", a.id, a.shutdown))
		return
	}
	if !a.dropped {
		r.s.Fail("export_early_drop", "export.go:(*Conn).releaseExport", fmt.Sprintf("application capability %d was shut down while the application still holds its own reference", a.id))
		return
	}
	if r.connOpen() && r.peer != nil && !r.hostile && r.faultsPlanned == 0 { // (after a fault the Conn may be tearing itself down)
		for _, e := range r.peer.heldExports() {
			if e.appID == a.id {
				r.s.Fail("export_early_drop", "export.go:(*Conn).releaseExport", fmt.Sprintf("application capability %d was released while the peer still holds %d reference(s) on export %d and the connection is open", a.id, e.refs, e.id))
				return
			}
		}
	}
}

func (r *run) newAppCap() *appCap {
	a := &appCap{r: r, id: len(r.apps)}
	r.apps = append(r.apps, a)
	srv := server.New([]server.Method{{
		Method: capnp.Method{InterfaceID: ifaceID, MethodID: 0},
		Impl:   func(ctx context.Context, call *server.Call) error { return r.appImpl(a, ctx, call) },
	}}, a.id, a, &server.Policy{MaxConcurrentCalls: 4, AnswerQueueSize: 8})
	a.client = capnp.NewClient(srv)
	return a
}

func (r *run) appImpl(a *appCap, ctx context.Context, call *server.Call) error {
	s := r.s
	args := call.Args()
	token, flags := args.Uint64(0), args.Uint64(8)
	ac := &appCall{token: token, app: a.id, flags: flags, startSeq: s.Seq(), ctx: ctx, putApp: -1}
	if a.shutdown > 0 && !r.hostile {
		s.Fail("call_after_shutdown", "rpc.go:(*Conn).handleCall", fmt.Sprintf("call %d delivered to application capability %d after it was shut down", token, a.id))
		return nil
	}
	if old := r.appCalls[token]; old != nil && !r.hostile {
		s.Fail("delivered_twice", "rpc.go:(*Conn).handleCall", fmt.Sprintf("call with token %d was delivered to the application twice (capabilities %d and %d)", token, old.app, a.id))
		return nil
	}
	r.appCalls[token] = ac
	if lc := r.locals[token]; lc != nil && lc.base != nil && !r.hostile {
		// a local call pipelined on a local question came back to a local capability (the peer answered
		// the question with one of the Conn's own exports): order of issue must be kept across the
		// resolution - that is what the embargo is for
		s.Probe("local_pipelined_call_delivered_locally")
		if lc.path == 1 {
			s.Probe("local_pipelined_call_on_second_pointer_delivered_locally")
			if lc.base.npiped[1] > 1 {
				s.Probe("several_local_calls_on_second_pointer_delivered_locally")
			}
			if lc.base.npiped[0] > 0 {
				s.Probe("second_pointer_delivered_locally_with_first_pointer_called_too")
			}
		}
		if lc.seq+1 <= lc.base.delivered[lc.path] {
			r.mfail("order", "rpc.go:(*Conn).handleReturn", fmt.Sprintf("local calls pipelined on local call %d through result pointer %d: call #%d (token %d) reached the application after a later one (#%d) had", lc.base.token, lc.path, lc.seq, token, lc.base.delivered[lc.path]-1))
			return nil
		}
		lc.base.delivered[lc.path] = lc.seq + 1
	}
	r.started = append(r.started, ac)
	s.Logf("app cap %d: call token=%d flags=%b starts", a.id, token, flags)
	// capability received in params pointer 0
	var param *capnp.Client
	if p, err := args.Ptr(0); err == nil && p.Interface().IsValid() {
		param = p.Interface().Client()
		if param != nil {
			if id, ok := server.IsServer(param.State().Brand); ok {
				ac.gotCap = fmt.Sprintf("app:%v", id)
			} else {
				ac.gotCap = "import"
				if a.id == 0 && a.handedOver && a.kept == nil && token%3 == 0 && !r.hostile && r.peer != nil {
					for _, qid := range r.peer.order {
						if q := r.peer.myQ[qid]; q.token == token && q.fwdFor == nil && len(q.paramCaps) > 0 && q.paramCaps[0].kind == "senderHosted" {
							a.kept, a.keptExport = param.AddRef(), q.paramCaps[0].id
							s.Probe("bootstrap_capability_keeps_an_import")
						}
					}
				}
			}
		}
	}
	res, err := call.AllocResults(capnp.ObjectSize{DataSize: 16, PointerCount: 2})
	if err != nil {
		ac.err = fmt.Errorf("app-error:%d:alloc:%v", token, err)
		ac.done = true
		return ac.err
	}
	ac.retToken = token + 1000
	res.SetUint64(0, ac.retToken)
	put := func(c *capnp.Client, appID int) {
		if token%5 == 0 {
			// the same capability twice in one result: two descriptors, two references, which a Finish
			// with releaseResultCaps gives back together
			id2 := res.Message().AddCap(c.AddRef())
			res.SetPtr(1, capnp.NewInterface(res.Segment(), id2).ToPtr())
			s.Probe("result_names_capability_twice")
		}
		id := res.Message().AddCap(c)
		res.SetPtr(0, capnp.NewInterface(res.Segment(), id).ToPtr())
		res.SetUint64(8, uint64(appID+1))
		ac.putApp = appID
	}
	switch {
	case flags&fRetFresh != 0:
		n := r.newAppCap()
		if token%2 == 0 {
			// the application hands its only reference over with the result: from now on the
			// connection's tables decide when the capability is shut down (Shutdown then runs
			// inside Conn code: handleRelease, handleFinish, answer teardown, shutdown)
			n.dropped, n.handedOver = true, true
			put(n.client, n.id)
			s.Probe("fresh_capability_owned_by_the_connection")
		} else {
			put(n.client.AddRef(), n.id)
		}
		s.Probe("return_with_fresh_capability")
	case flags&fRetBoot != 0 && !r.apps[0].handedOver:
		put(r.apps[0].client.AddRef(), 0)
	case flags&fRetParam != 0 && param != nil:
		appID := -1
		if id, ok := server.IsServer(param.State().Brand); ok {
			appID = id.(int)
		}
		put(param.AddRef(), appID)
		s.Probe("return_with_param_capability")
	}
	if flags&fSlow != 0 {
		call.Ack()
		ac.waiting = true
		s.Block("app-slow", func() bool { return ac.release || ctx.Err() != nil })
		ac.waiting = false
		if ctx.Err() != nil && !ac.release {
			ac.err = fmt.Errorf("app-error:%d:cancelled", token)
			ac.done = true
			return ac.err
		}
	} else {
		// 0..2 yields usually; 3..5 mean a late return (9..15 yields) that keeps
		// the server's start gate closed while more traffic arrives
		n := s.Choice("app-yields", 6)
		if n > 2 {
			n = n * 3
			s.Probe("app_late_return")
		}
		for i := 0; i < n; i++ {
			simrt.YieldAt("app")
		}
	}
	if flags&fFail != 0 {
		ac.err = fmt.Errorf("app-error:%d:failed", token)
		ac.done = true
		return ac.err
	}
	ac.done = true
	s.Logf("app cap %d: call token=%d returns ok", a.id, token)
	return nil
}
