package rpcsim

import (
	"errors"
	"io"
	"os"
	"time"

	"capnproto.org/go/capnp/v3/simrt"
	"verifh/ref/packedref"
	"verifh/ref/wire"
)

// simPipe is the io.ReadWriteCloser under the real stream transport
// (topology C).  It has no deadline methods, so the transport's leaky-read
// path is exercised; wrapped in simPipeDL it has a working SetReadDeadline and
// the transport interrupts a blocked Read by moving the deadline into the past
// (what it does on a net.Conn).  Writes can be cut short or fail; whatever reached the
// wire is kept so that the torn-write rule can be checked.
type simPipe struct {
	r       *run
	s       *simrt.Sched
	rbuf    []byte // bytes the Conn has not read yet
	wirebuf []byte // every byte the Conn wrote
	parsed  int    // prefix of wirebuf already split into frames
	closed  bool
	nWrite  int
	nRead   int
	// fault plan (1-based indices, 0 = never)
	shortWriteAt int
	shortKeep    int // bytes accepted by the short write (>= 1)
	writeErr0At  int // write fails with n == 0
	readErrAt    int
	eofAt        int
	torn         bool // a failed write left the wire in the middle of a frame
	chunk        int
	packed       bool // the transport under test is NewPackedStreamTransport: bytes on the pipe are packed
	deadlines    bool      // wrapped in simPipeDL
	rdl          time.Time // read deadline (zero: none)
	wdl          time.Time // write deadline (zero: none)
	writeStallAt int       // this write accepts stallKeep bytes and then makes no progress (deadline-capable pipe only)
	stallKeep    int
}

// simPipeDL adds SetReadDeadline with the semantics of net.Conn: a Read that
// is blocked, or starts, when the deadline has passed fails with a timeout.
type simPipeDL struct{ *simPipe }

func (p simPipeDL) SetReadDeadline(t time.Time) error {
	p.rdl = t
	p.s.Probe("pipe_set_read_deadline")
	return nil
}

// SetWriteDeadline: a Write that is stalled when the deadline passes returns
// what it has accepted so far and a timeout error.
func (p simPipeDL) SetWriteDeadline(t time.Time) error {
	p.wdl = t
	return nil
}

func (p *simPipe) wexpired() bool {
	return p.deadlines && !p.wdl.IsZero() && !time.Now().Before(p.wdl)
}

func (p *simPipe) expired() bool {
	return p.deadlines && !p.rdl.IsZero() && !time.Now().Before(p.rdl)
}

var errPipeClosed = errors.New("rpcsim: pipe closed")

func (p *simPipe) Read(b []byte) (int, error) {
	p.nRead++
	if p.readErrAt != 0 && p.nRead == p.readErrAt {
		p.s.Fault("read_err")
		return 0, errInjected
	}
	if p.eofAt != 0 && p.nRead == p.eofAt {
		p.s.Fault("eof")
		return 0, io.EOF
	}
	if p.expired() {
		p.s.Probe("pipe_read_after_deadline")
		return 0, os.ErrDeadlineExceeded
	}
	p.s.Block("pipe-read", func() bool { return len(p.rbuf) > 0 || len(p.r.toConn) > 0 || p.closed || p.expired() })
	if p.expired() {
		p.s.Probe("pipe_read_interrupted_by_deadline")
		return 0, os.ErrDeadlineExceeded
	}
	if len(p.rbuf) == 0 && len(p.r.toConn) > 0 {
		wm := p.r.toConn[0]
		p.r.toConn = p.r.toConn[1:]
		p.r.peer.delivered(wm)
		p.rbuf = wm.data
		if p.packed {
			p.rbuf = packedref.Pack(wm.data)
		}
	}
	if len(p.rbuf) == 0 {
		return 0, errPipeClosed
	}
	n := len(b)
	if p.chunk > 0 && p.chunk < n {
		n = p.chunk
	}
	if n > len(p.rbuf) {
		n = len(p.rbuf)
	}
	copy(b, p.rbuf[:n])
	p.rbuf = p.rbuf[n:]
	return n, nil
}

func (p *simPipe) Write(b []byte) (int, error) {
	p.nWrite++
	if p.closed {
		return 0, errPipeClosed
	}
	accept, err := len(b), error(nil)
	if p.wexpired() {
		return 0, os.ErrDeadlineExceeded
	}
	switch {
	case p.writeStallAt != 0 && p.nWrite >= p.writeStallAt:
		// the peer has stopped reading: this write takes stallKeep bytes (possibly none, possibly in
		// the middle of a frame) and then sits there, like every later one, until the transport
		// interrupts it through the write deadline or closes the stream; a stall that nobody
		// interrupts ends with an error after ten simulated seconds
		if p.nWrite == p.writeStallAt {
			p.s.Fault("write_stall")
			accept = p.stallKeep
			if accept >= len(b) {
				accept = len(b) - 1
			}
			if accept < 0 {
				accept = 0
			}
		} else {
			accept = 0
		}
		limit := p.s.Now() + 10*time.Second
		p.s.Block("pipe-write-stall", func() bool { return p.wexpired() || p.closed || p.s.Now() >= limit })
		err = os.ErrDeadlineExceeded
		switch {
		case p.wexpired():
			p.s.Probe("pipe_write_interrupted_by_deadline")
		case p.closed:
			err = errPipeClosed
		default:
			err = errInjected
		}
	case p.shortWriteAt != 0 && p.nWrite == p.shortWriteAt && len(b) > 1:
		accept = p.shortKeep
		if accept >= len(b) {
			accept = len(b) - 1
		}
		if accept < 1 {
			accept = 1
		}
		err = errInjected
		p.s.Fault("short_write")
	case p.writeErr0At != 0 && p.nWrite == p.writeErr0At:
		accept, err = 0, errInjected
		p.s.Fault("write_err_n0")
	}
	if accept > 0 && p.torn {
		p.s.Fail("torn_frame_followed", "transport.go:(*transport).NewMessage", "after a write had failed in the middle of a frame the transport wrote further bytes to the stream: the peer would parse garbage as messages")
		return 0, errPipeClosed
	}
	p.wirebuf = append(p.wirebuf, b[:accept]...)
	// the unpacked byte stream the peer sees so far (every word determined by the bytes on the wire)
	stream, midItem := p.wirebuf, false
	if p.packed {
		d := packedref.UnpackDetail(p.wirebuf)
		stream, midItem = d.Out, d.Status != packedref.OK
	}
	if err != nil {
		if _, trailing := wire.FrameBoundaries(stream[p.parsed:]); trailing > 0 || midItem {
			p.torn = true
			p.s.Probe("torn_write_left_partial_frame")
		}
		return accept, err
	}
	// hand complete frames to the peer
	for {
		_, used, perr := wire.ParseFrame(stream[p.parsed:])
		if perr != nil {
			break
		}
		frame := stream[p.parsed : p.parsed+used]
		p.parsed += used
		p.r.toPeer = append(p.r.toPeer, wireMsg{seq: p.s.Seq(), data: append([]byte(nil), frame...)})
	}
	return accept, nil
}

func (p *simPipe) Close() error {
	p.closed = true
	return nil
}
