package rpcsim

import (
	"encoding/binary"
	"fmt"

	capnp "capnproto.org/go/capnp/v3"
	rpccp "capnproto.org/go/capnp/v3/std/capnp/rpc"
)

// The hostile peer (C08): from any protocol state reached by legal traffic it
// emits schema-valid messages with illegal values, unsupported messages, and
// byte-level corruptions of valid messages.

func (p *peer) someQuestionID() uint32 {
	s := p.r.s
	switch s.Choice("h-qid", 4) {
	case 0:
		return 9999 // never used
	case 1:
		if p.nextQ > 0 {
			return uint32(s.Choice("h-qid-used", int(p.nextQ))) // used (open, returned or finished)
		}
		return 0
	case 2:
		return p.nextQ // next unused
	default:
		return uint32(s.Choice("h-qid-small", 8))
	}
}

func (p *peer) hostileMove() string {
	s := p.r.s
	kind := s.Choice("hostile-kind", 26) // (24, 25 added later: older tapes keep their meaning)
	var what string
	switch kind {
	case 0: // Return for a question the Conn never asked / already answered
		id := p.someQuestionID()
		what = fmt.Sprintf("Return for bogus answer id %d", id)
		p.send(what, p.build(func(m rpccp.Message) error {
			rt, err := m.NewReturn()
			if err != nil {
				return err
			}
			rt.SetAnswerId(id)
			pl, err := rt.NewResults()
			if err != nil {
				return err
			}
			return fillPayload(pl, 1, 0, nil)
		}))
	case 1: // Finish for an unknown question or twice
		id := p.someQuestionID()
		what = fmt.Sprintf("Finish for bogus question id %d", id)
		p.send(what, p.build(func(m rpccp.Message) error {
			f, err := m.NewFinish()
			if err != nil {
				return err
			}
			f.SetQuestionId(id)
			f.SetReleaseResultCaps(s.Choice("h-rrc", 2) == 1)
			return nil
		}))
	case 24, 25: // Finish(releaseResultCaps) for a running call that returns a fresh capability, plus a Release
		// for the export id that Return is going to introduce: if the Release is handled while the
		// Return is being written, tearing the answer down afterwards fails inside answer.Return
		var tq *myQuestion
		for _, id := range p.order {
			if q := p.myQ[id]; q.kind == "call" && q.flags&fRetFresh != 0 && !q.returned && !q.finishSent {
				tq = q
			}
		}
		next := uint32(0)
		for ; next < 64; next++ {
			if e := p.exports[next]; e == nil || e.refs <= 0 {
				break
			}
		}
		if tq != nil {
			p.finish(tq, true)
		}
		what = fmt.Sprintf("Release id=%d count=1 (the export a pending Return will introduce; finished question: %v)", next, tq != nil)
		p.send(what, p.build(releaseMsg(next, 1)))
	case 2: // Release of an unknown export / too many references
		id := uint32(s.Choice("h-exp", 6))
		n := uint32([]int{0, 1, 2, 1000, 1 << 31}[s.Choice("h-relcount", 5)])
		what = fmt.Sprintf("Release id=%d count=%d (not held)", id, n)
		p.send(what, p.build(releaseMsg(id, n)))
	case 3, 4: // Call to an unknown import id, with odd descriptors
		q := p.nextQ
		p.nextQ++
		imp := uint32([]int{7, 99, 1 << 20}[s.Choice("h-imp", 3)])
		caps := p.hostileCaps()
		what = fmt.Sprintf("Call q=%d to unknown import %d caps=%v", q, imp, caps)
		p.send(what, p.build(func(m rpccp.Message) error {
			c, err := m.NewCall()
			if err != nil {
				return err
			}
			c.SetQuestionId(q)
			c.SetInterfaceId(ifaceID)
			tg, _ := c.NewTarget()
			tg.SetImportedCap(imp)
			pl, err := c.NewParams()
			if err != nil {
				return err
			}
			return fillPayload(pl, 77, 0, caps)
		}))
	case 5, 6: // Call to a held export (or bootstrap answer) with descriptors naming non-existent exports / imports
		q := p.nextQ
		p.nextQ++
		caps := p.hostileCaps()
		held := p.heldExports()
		what = fmt.Sprintf("Call q=%d with hostile descriptors %v", q, caps)
		p.send(what, p.build(func(m rpccp.Message) error {
			c, err := m.NewCall()
			if err != nil {
				return err
			}
			c.SetQuestionId(q)
			c.SetInterfaceId(ifaceID)
			tg, _ := c.NewTarget()
			if len(held) > 0 {
				tg.SetImportedCap(held[0].id)
			} else {
				tg.SetImportedCap(0)
			}
			pl, err := c.NewParams()
			if err != nil {
				return err
			}
			return fillPayload(pl, p.r.newToken(), 0, caps)
		}))
	case 7: // Call on an unknown / finished promised answer, odd transforms
		q := p.nextQ
		p.nextQ++
		tgt := p.someQuestionID()
		what = fmt.Sprintf("Call q=%d on promisedAnswer %d with odd transform", q, tgt)
		p.send(what, p.build(func(m rpccp.Message) error {
			c, err := m.NewCall()
			if err != nil {
				return err
			}
			c.SetQuestionId(q)
			c.SetInterfaceId(ifaceID)
			tg, _ := c.NewTarget()
			pa, _ := tg.NewPromisedAnswer()
			pa.SetQuestionId(tgt)
			n := s.Choice("h-xf-len", 4)
			ops, _ := pa.NewTransform(int32(n))
			for i := 0; i < n; i++ {
				switch s.Choice("h-xf-op", 3) {
				case 0:
					ops.At(i).SetNoop()
				case 1:
					ops.At(i).SetGetPointerField(uint16(s.Choice("h-xf-field", 5)))
				default:
					ops.At(i).Struct.SetUint16(0, 7) // unknown op
				}
			}
			pl, err := c.NewParams()
			if err != nil {
				return err
			}
			return fillPayload(pl, p.r.newToken(), 0, nil)
		}))
	case 8: // question id reuse
		var id uint32
		for _, qid := range p.order {
			if !p.myQ[qid].finishSent {
				id = qid
			}
		}
		what = fmt.Sprintf("Bootstrap reusing question id %d", id)
		p.send(what, p.build(func(m rpccp.Message) error {
			b, err := m.NewBootstrap()
			if err != nil {
				return err
			}
			b.SetQuestionId(id)
			return nil
		}))
	case 9: // Disembargo for an unknown embargo / bad target
		what = "Disembargo with bogus context"
		p.send(what, p.build(func(m rpccp.Message) error {
			d, err := m.NewDisembargo()
			if err != nil {
				return err
			}
			tg, _ := d.NewTarget()
			switch s.Choice("h-dis-target", 3) {
			case 0:
				tg.SetImportedCap(uint32(s.Choice("h-dis-imp", 5)))
			case 1:
				pa, _ := tg.NewPromisedAnswer()
				pa.SetQuestionId(p.someQuestionID())
			}
			switch s.Choice("h-dis-ctx", 4) {
			case 0:
				d.Context().SetReceiverLoopback(uint32(s.Choice("h-emb", 4)))
			case 1:
				d.Context().SetSenderLoopback(uint32(s.Choice("h-emb", 4)))
			case 2:
				d.Context().SetAccept()
			default:
				d.Context().SetProvide(3)
			}
			return nil
		}))
	case 10: // sendResultsTo = yourself
		q := p.nextQ
		p.nextQ++
		what = fmt.Sprintf("Call q=%d with sendResultsTo=yourself", q)
		p.send(what, p.build(func(m rpccp.Message) error {
			c, err := m.NewCall()
			if err != nil {
				return err
			}
			c.SetQuestionId(q)
			c.SetInterfaceId(ifaceID)
			tg, _ := c.NewTarget()
			tg.SetImportedCap(0)
			c.SendResultsTo().SetYourself()
			pl, err := c.NewParams()
			if err != nil {
				return err
			}
			return fillPayload(pl, p.r.newToken(), 0, nil)
		}))
	case 11: // unknown union discriminant in Message
		d := uint16([]int{14, 99, 65535}[s.Choice("h-which", 3)])
		what = fmt.Sprintf("Message with unknown discriminant %d", d)
		p.send(what, p.build(func(m rpccp.Message) error {
			if _, err := m.NewBootstrap(); err != nil {
				return err
			}
			m.Struct.SetUint16(0, d)
			return nil
		}))
	case 12: // unsupported level 2+ messages
		what = "unsupported message (Provide/Accept/Join/Resolve/ObsoleteSave)"
		p.send(what, p.build(func(m rpccp.Message) error {
			switch s.Choice("h-unsup", 5) {
			case 0:
				_, err := m.NewProvide()
				return err
			case 1:
				_, err := m.NewAccept()
				return err
			case 2:
				_, err := m.NewJoin()
				return err
			case 3:
				_, err := m.NewResolve()
				return err
			default:
				_, seg, _ := capnp.NewMessage(capnp.SingleSegment(nil))
				st, _ := capnp.NewStruct(seg, capnp.ObjectSize{DataSize: 8})
				return m.SetObsoleteSave(st.ToPtr())
			}
		}))
	case 13: // Unimplemented echo out of the blue
		what = "Unimplemented (unsolicited)"
		p.send(what, p.build(func(m rpccp.Message) error {
			u, err := m.NewUnimplemented()
			if err != nil {
				return err
			}
			_, err = u.NewBootstrap()
			return err
		}))
	case 14: // Return with descriptors naming a non-existent export, for a real question if there is one
		var id uint32 = 9999
		for qid := uint32(0); qid < 64; qid++ {
			if q := p.theirQ[qid]; q != nil && !q.returnSent {
				id = qid
				q.returnSent = true
				break
			}
		}
		caps := p.hostileCaps()
		what = fmt.Sprintf("Return a=%d with hostile descriptors %v", id, caps)
		p.send(what, p.build(func(m rpccp.Message) error {
			rt, err := m.NewReturn()
			if err != nil {
				return err
			}
			rt.SetAnswerId(id)
			pl, err := rt.NewResults()
			if err != nil {
				return err
			}
			return fillPayload(pl, 5, 0, caps)
		}))
	case 15: // Return with an unknown union member
		var id uint32 = 9999
		for qid := uint32(0); qid < 64; qid++ {
			if q := p.theirQ[qid]; q != nil && !q.returnSent {
				id = qid
				q.returnSent = true
				break
			}
		}
		what = fmt.Sprintf("Return a=%d with unsupported kind", id)
		p.send(what, p.build(func(m rpccp.Message) error {
			rt, err := m.NewReturn()
			if err != nil {
				return err
			}
			rt.SetAnswerId(id)
			switch s.Choice("h-ret-kind", 4) {
			case 0:
				rt.SetResultsSentElsewhere()
			case 1:
				rt.SetTakeFromOtherQuestion(3)
			case 2:
				rt.Struct.SetUint16(6, 42)
			default:
				rt.SetCanceled()
			}
			return nil
		}))
	case 16: // Abort
		what = "Abort"
		p.send(what, p.build(func(m rpccp.Message) error {
			a, err := m.NewAbort()
			if err != nil {
				return err
			}
			a.SetType(rpccp.Exception_Type_failed)
			return a.SetReason("hostile abort")
		}))
	case 17: // payload whose content pointer is not a struct / null
		q := p.nextQ
		p.nextQ++
		what = fmt.Sprintf("Call q=%d with odd payload content", q)
		p.send(what, p.build(func(m rpccp.Message) error {
			c, err := m.NewCall()
			if err != nil {
				return err
			}
			c.SetQuestionId(q)
			c.SetInterfaceId(ifaceID)
			tg, _ := c.NewTarget()
			tg.SetImportedCap(0)
			switch s.Choice("h-payload", 3) {
			case 0: // no params at all
			case 1: // content is a list
				pl, _ := c.NewParams()
				l, _ := capnp.NewData(pl.Segment(), []byte("xyz"))
				pl.SetContent(l.ToPtr())
			default: // content is an interface without table
				pl, _ := c.NewParams()
				pl.SetContent(capnp.NewInterface(pl.Segment(), 3).ToPtr())
			}
			return nil
		}))
	case 18, 19: // a message whose union member is set but whose body pointer is null
		w := uint16(s.Choice("h-null-which", 14))
		what = fmt.Sprintf("Message which=%d with a null body", w)
		p.send(what, p.build(func(m rpccp.Message) error {
			m.Struct.SetUint16(0, w)
			return nil
		}))
	default: // byte-level corruption of a valid Call
		q := p.nextQ
		p.nextQ++
		data := p.build(func(m rpccp.Message) error {
			c, err := m.NewCall()
			if err != nil {
				return err
			}
			c.SetQuestionId(q)
			c.SetInterfaceId(ifaceID)
			tg, _ := c.NewTarget()
			tg.SetImportedCap(0)
			pl, err := c.NewParams()
			if err != nil {
				return err
			}
			return fillPayload(pl, p.r.newToken(), 0, []capDesc{{kind: "senderHosted", id: 40}})
		})
		// corrupt only the body (after the 8-byte segment table of a single-segment frame)
		nw := (len(data) - 8) / 8
		for k := 1 + s.Choice("h-nflips", 3); k > 0 && nw > 0; k-- {
			at := 8 + 8*s.Choice("h-word", nw)
			if s.Choice("h-corrupt-kind", 2) == 0 {
				bit := s.Choice("h-bit", 64)
				data[at+bit/8] ^= 1 << uint(bit%8)
			} else {
				vals := []uint64{0xfffffffc, 0x00000001ffffffff, 0x7fffffff00000002, 3, 1<<35 | 1, 0xffff0000fffffffc}
				binary.LittleEndian.PutUint64(data[at:], vals[s.Choice("h-smash", len(vals))])
			}
		}
		what = fmt.Sprintf("corrupted Call q=%d", q)
		p.send(what, data)
	}
	s.Fault("hostile_message")
	p.r.s.Probe("hostile:" + fmt.Sprint(kind))
	return what
}

func (p *peer) hostileCaps() []capDesc {
	s := p.r.s
	var caps []capDesc
	for i := 1 + s.Choice("h-ncaps", 2); i > 0; i-- {
		switch s.Choice("h-cap", 5) {
		case 0:
			caps = append(caps, capDesc{kind: "receiverHosted", id: uint32([]int{5, 99, 1 << 30}[s.Choice("h-rh", 3)])})
		case 1:
			caps = append(caps, capDesc{kind: "senderHosted", id: uint32(s.Choice("h-sh", 50))})
		case 2:
			caps = append(caps, capDesc{kind: "senderPromise", id: uint32(s.Choice("h-sp", 5))})
		case 3:
			caps = append(caps, capDesc{kind: "thirdParty"})
		default:
			caps = append(caps, capDesc{kind: "none"})
		}
	}
	return caps
}
