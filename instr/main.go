// instr mechanically instruments a scratch copy of go-capnproto2 for the
// deterministic-simulation runtime (see DESIGN.md §2.2, rules R1-R6).
//
// usage: instr -dir <scratch repo copy> [pattern ...]
//
// It never touches /repo; the driver runs it on a copy.  Exit status 0 on
// success, 2 on any construct it does not understand.
package main

import (
	"bytes"
	"flag"
	"fmt"
	"go/ast"
	"go/format"
	"go/token"
	"go/types"
	"os"
	"sort"
	"strings"

	"golang.org/x/tools/go/ast/astutil"
	"golang.org/x/tools/go/packages"
)

const simrtPath = "capnproto.org/go/capnp/v3/simrt"

var atomicWrapped = map[string]bool{}

func init() {
	for _, op := range []string{"Load", "Store", "Add", "CompareAndSwap", "Swap"} {
		for _, ty := range []string{"Uint64", "Int64", "Uint32", "Int32"} {
			atomicWrapped[op+ty] = true
		}
	}
}

type stats struct {
	mutex, once, gostmt, recv, send, sel, selKept, wg, atomics, maprange int
	warnings                                                            []string
}

func main() {
	dir := flag.String("dir", "", "root of the scratch copy")
	verbose := flag.Bool("v", false, "verbose")
	flag.Parse()
	if *dir == "" {
		fmt.Fprintln(os.Stderr, "instr: -dir required")
		os.Exit(2)
	}
	patterns := flag.Args()
	if len(patterns) == 0 {
		patterns = []string{".", "./rpc", "./server", "./schemas", "./encoding/text", "./pogs",
			"./internal/packed", "./internal/nodemap", "./internal/strquote", "./internal/errors"}
	}
	cfg := &packages.Config{
		Mode: packages.NeedName | packages.NeedFiles | packages.NeedSyntax | packages.NeedTypes |
			packages.NeedTypesInfo | packages.NeedImports | packages.NeedDeps | packages.NeedCompiledGoFiles,
		Dir:   *dir,
		Tests: false,
		Env:   append(os.Environ(), "GOFLAGS=-mod=mod", "GOPROXY=off", "GOSUMDB=off", "GOTOOLCHAIN=local"),
	}
	pkgs, err := packages.Load(cfg, patterns...)
	if err != nil {
		fmt.Fprintln(os.Stderr, "instr: load:", err)
		os.Exit(2)
	}
	bad := false
	for _, p := range pkgs {
		for _, e := range p.Errors {
			fmt.Fprintln(os.Stderr, "instr: package error:", e)
			bad = true
		}
	}
	if bad {
		os.Exit(2)
	}
	var st stats
	for _, p := range pkgs {
		for i, f := range p.Syntax {
			name := p.CompiledGoFiles[i]
			if strings.HasSuffix(name, "_test.go") {
				continue
			}
			changed, err := instrumentFile(p, f, &st)
			if err != nil {
				fmt.Fprintf(os.Stderr, "instr: %s: %v\n", name, err)
				os.Exit(2)
			}
			if !changed {
				continue
			}
			var buf bytes.Buffer
			if err := format.Node(&buf, p.Fset, f); err != nil {
				fmt.Fprintf(os.Stderr, "instr: format %s: %v\n", name, err)
				os.Exit(2)
			}
			if err := os.WriteFile(name, buf.Bytes(), 0o644); err != nil {
				fmt.Fprintln(os.Stderr, "instr:", err)
				os.Exit(2)
			}
			if *verbose {
				fmt.Println("instrumented", name)
			}
		}
	}
	fmt.Printf("instr: mutex=%d once=%d go=%d recv=%d send=%d select=%d select_kept=%d waitgroup=%d atomic=%d maprange=%d\n",
		st.mutex, st.once, st.gostmt, st.recv, st.send, st.sel, st.selKept, st.wg, st.atomics, st.maprange)
	sort.Strings(st.warnings)
	for _, w := range st.warnings {
		fmt.Println("instr: warning:", w)
	}
}

func sim(name string) *ast.SelectorExpr {
	return &ast.SelectorExpr{X: ast.NewIdent("simrt"), Sel: ast.NewIdent(name)}
}

func simCall(name string, args ...ast.Expr) *ast.CallExpr {
	return &ast.CallExpr{Fun: sim(name), Args: args}
}

func isPkg(info *types.Info, e ast.Expr, path string) bool {
	id, ok := e.(*ast.Ident)
	if !ok {
		return false
	}
	pn, ok := info.Uses[id].(*types.PkgName)
	return ok && pn.Imported().Path() == path
}

func isWaitGroup(t types.Type) (isWG, isPtr bool) {
	if t == nil {
		return false, false
	}
	if p, ok := t.(*types.Pointer); ok {
		t = p.Elem()
		isPtr = true
	}
	n, ok := t.(*types.Named)
	if !ok {
		return false, false
	}
	o := n.Obj()
	return o.Pkg() != nil && o.Pkg().Path() == "sync" && o.Name() == "WaitGroup", isPtr
}

func instrumentFile(p *packages.Package, f *ast.File, st *stats) (bool, error) {
	info := p.TypesInfo
	changed := false
	var ferr error
	inComm := map[ast.Node]bool{} // receive expressions / send statements that are select communications
	tmp := 0
	fresh := func(prefix string) string { tmp++; return fmt.Sprintf("_sim%s%d", prefix, tmp) }

	pre := func(c *astutil.Cursor) bool {
		switch n := c.Node().(type) {
		case *ast.CommClause:
			if n.Comm != nil {
				ast.Inspect(n.Comm, func(x ast.Node) bool {
					switch x.(type) {
					case *ast.UnaryExpr, *ast.SendStmt:
						inComm[x] = true
					case *ast.FuncLit:
						return false
					}
					return true
				})
			}
		}
		return true
	}

	post := func(c *astutil.Cursor) bool {
		switch n := c.Node().(type) {
		case *ast.SelectorExpr:
			// R1: sync.Mutex / sync.Once type names
			if isPkg(info, n.X, "sync") {
				switch n.Sel.Name {
				case "Mutex":
					c.Replace(sim("Mutex"))
					st.mutex++
					changed = true
				case "Once":
					c.Replace(sim("Once"))
					st.once++
					changed = true
				case "RWMutex", "Cond":
					ferr = fmt.Errorf("unsupported sync.%s at %s", n.Sel.Name, p.Fset.Position(n.Pos()))
				}
			}
		case *ast.CallExpr:
			if sel, ok := n.Fun.(*ast.SelectorExpr); ok {
				// R5: atomics
				if isPkg(info, sel.X, "sync/atomic") {
					if atomicWrapped[sel.Sel.Name] {
						n.Fun = sim("Atomic" + sel.Sel.Name)
						st.atomics++
						changed = true
					} else {
						st.warnings = append(st.warnings, fmt.Sprintf("atomic.%s left alone at %s", sel.Sel.Name, p.Fset.Position(n.Pos())))
					}
				}
				// WaitGroup.Wait
				if sel.Sel.Name == "Wait" && len(n.Args) == 0 {
					if wg, ptr := isWaitGroup(info.TypeOf(sel.X)); wg {
						arg := sel.X
						if !ptr {
							arg = &ast.UnaryExpr{Op: token.AND, X: sel.X}
						}
						c.Replace(simCall("WGWait", arg))
						st.wg++
						changed = true
					}
				}
			}
		case *ast.UnaryExpr:
			// R3: blocking receive outside select
			if n.Op == token.ARROW && !inComm[n] {
				// v, ok := <-ch form?
				if as, ok := c.Parent().(*ast.AssignStmt); ok && len(as.Lhs) == 2 && len(as.Rhs) == 1 && as.Rhs[0] == n {
					c.Replace(simCall("Recv2", n.X))
				} else if vs, ok := c.Parent().(*ast.ValueSpec); ok && len(vs.Names) == 2 && len(vs.Values) == 1 && vs.Values[0] == n {
					c.Replace(simCall("Recv2", n.X))
				} else {
					c.Replace(simCall("Recv", n.X))
				}
				st.recv++
				changed = true
			}
		case *ast.SendStmt:
			if !inComm[n] {
				if c.Index() < 0 {
					ferr = fmt.Errorf("send statement not in a statement list at %s", p.Fset.Position(n.Pos()))
					return false
				}
				c.InsertAfter(&ast.ExprStmt{X: simCall("AfterWake")})
				st.send++
				changed = true
			}
		case *ast.GoStmt:
			// R2
			call := n.Call
			var stmts []ast.Stmt
			fun := call.Fun
			if _, isLit := fun.(*ast.FuncLit); !isLit {
				name := fresh("f")
				stmts = append(stmts, &ast.AssignStmt{Lhs: []ast.Expr{ast.NewIdent(name)}, Tok: token.DEFINE, Rhs: []ast.Expr{fun}})
				fun = ast.NewIdent(name)
			}
			var args []ast.Expr
			for _, a := range call.Args {
				name := fresh("a")
				stmts = append(stmts, &ast.AssignStmt{Lhs: []ast.Expr{ast.NewIdent(name)}, Tok: token.DEFINE, Rhs: []ast.Expr{a}})
				args = append(args, ast.NewIdent(name))
			}
			inner := &ast.CallExpr{Fun: fun, Args: args}
			if call.Ellipsis.IsValid() {
				inner.Ellipsis = 1
			}
			var lit *ast.FuncLit
			if fl, isLit := fun.(*ast.FuncLit); isLit && len(args) == 0 && fl.Type.Results == nil {
				lit = fl
			} else {
				if fl, isLit := fun.(*ast.FuncLit); isLit {
					inner.Fun = &ast.ParenExpr{X: fl}
				}
				lit = &ast.FuncLit{Type: &ast.FuncType{Params: &ast.FieldList{}}, Body: &ast.BlockStmt{List: []ast.Stmt{&ast.ExprStmt{X: inner}}}}
			}
			stmts = append(stmts, &ast.ExprStmt{X: simCall("Go", lit)})
			if len(stmts) == 1 {
				c.Replace(stmts[0])
			} else {
				c.Replace(&ast.BlockStmt{List: stmts})
			}
			st.gostmt++
			changed = true
		case *ast.SelectStmt:
			// R4
			hasDefault := false
			allBareRecv := true
			for _, cl := range n.Body.List {
				cc := cl.(*ast.CommClause)
				if cc.Comm == nil {
					hasDefault = true
					continue
				}
				es, ok := cc.Comm.(*ast.ExprStmt)
				if !ok {
					allBareRecv = false
					continue
				}
				if u, ok := es.X.(*ast.UnaryExpr); !ok || u.Op != token.ARROW {
					allBareRecv = false
				}
			}
			if hasDefault {
				break
			}
			if len(n.Body.List) == 0 {
				break // select {} blocks forever
			}
			if !allBareRecv {
				for _, cl := range n.Body.List {
					cc := cl.(*ast.CommClause)
					cc.Body = append([]ast.Stmt{&ast.ExprStmt{X: simCall("AfterWake")}}, cc.Body...)
				}
				st.selKept++
				st.warnings = append(st.warnings, fmt.Sprintf("select with value/send cases keeps the runtime's choice at %s", p.Fset.Position(n.Pos())))
				changed = true
				break
			}
			var chans []ast.Expr
			sw := &ast.SwitchStmt{Body: &ast.BlockStmt{}}
			for i, cl := range n.Body.List {
				cc := cl.(*ast.CommClause)
				u := cc.Comm.(*ast.ExprStmt).X.(*ast.UnaryExpr)
				chans = append(chans, u.X)
				sw.Body.List = append(sw.Body.List, &ast.CaseClause{
					List: []ast.Expr{&ast.BasicLit{Kind: token.INT, Value: fmt.Sprint(i)}},
					Body: cc.Body,
				})
			}
			sw.Body.List = append(sw.Body.List, &ast.CaseClause{Body: []ast.Stmt{&ast.ExprStmt{X: &ast.CallExpr{
				Fun: ast.NewIdent("panic"), Args: []ast.Expr{&ast.BasicLit{Kind: token.STRING, Value: `"simrt: bad select index"`}}}}}})
			sw.Tag = simCall("Select", chans...)
			c.Replace(sw)
			st.sel++
			changed = true
		case *ast.RangeStmt:
			// R6 and range-over-channel
			t := info.TypeOf(n.X)
			if t == nil {
				break
			}
			if _, isChan := t.Underlying().(*types.Chan); isChan {
				ferr = fmt.Errorf("range over channel not supported at %s", p.Fset.Position(n.Pos()))
				return false
			}
			if _, isMap := t.Underlying().(*types.Map); !isMap {
				break
			}
			if n.Key == nil {
				break
			}
			pure := isPureExpr(n.X)
			if !pure {
				ferr = fmt.Errorf("range over non-trivial map expression at %s", p.Fset.Position(n.Pos()))
				return false
			}
			keyExpr := n.Key
			tok := n.Tok
			if id, ok := keyExpr.(*ast.Ident); ok && id.Name == "_" {
				keyExpr = ast.NewIdent(fresh("k"))
				tok = token.DEFINE
				if n.Tok == token.ASSIGN {
					ferr = fmt.Errorf("range with = and blank key at %s", p.Fset.Position(n.Pos()))
					return false
				}
			}
			okName := fresh("ok")
			var head []ast.Stmt
			valIsBlank := n.Value == nil
			if id, ok := n.Value.(*ast.Ident); ok && id.Name == "_" {
				valIsBlank = true
			}
			idx := &ast.IndexExpr{X: n.X, Index: keyExpr}
			if valIsBlank {
				head = append(head, &ast.IfStmt{
					Init: &ast.AssignStmt{Lhs: []ast.Expr{ast.NewIdent("_"), ast.NewIdent(okName)}, Tok: token.DEFINE, Rhs: []ast.Expr{idx}},
					Cond: &ast.UnaryExpr{Op: token.NOT, X: ast.NewIdent(okName)},
					Body: &ast.BlockStmt{List: []ast.Stmt{&ast.BranchStmt{Tok: token.CONTINUE}}},
				})
			} else if n.Tok == token.DEFINE {
				head = append(head,
					&ast.AssignStmt{Lhs: []ast.Expr{n.Value, ast.NewIdent(okName)}, Tok: token.DEFINE, Rhs: []ast.Expr{idx}},
					&ast.IfStmt{Cond: &ast.UnaryExpr{Op: token.NOT, X: ast.NewIdent(okName)},
						Body: &ast.BlockStmt{List: []ast.Stmt{&ast.BranchStmt{Tok: token.CONTINUE}}}},
				)
			} else {
				head = append(head,
					&ast.IfStmt{
						Init: &ast.AssignStmt{Lhs: []ast.Expr{ast.NewIdent("_"), ast.NewIdent(okName)}, Tok: token.DEFINE, Rhs: []ast.Expr{idx}},
						Cond: &ast.UnaryExpr{Op: token.NOT, X: ast.NewIdent(okName)},
						Body: &ast.BlockStmt{List: []ast.Stmt{&ast.BranchStmt{Tok: token.CONTINUE}}},
					},
					&ast.AssignStmt{Lhs: []ast.Expr{n.Value}, Tok: token.ASSIGN, Rhs: []ast.Expr{idx}},
				)
			}
			n.Body.List = append(head, n.Body.List...)
			n.Key = ast.NewIdent("_")
			n.Value = keyExpr
			n.Tok = tok
			n.X = simCall("SortedKeys", n.X)
			st.maprange++
			changed = true
		}
		return ferr == nil
	}
	astutil.Apply(f, pre, post)
	if ferr != nil {
		return false, ferr
	}
	if changed {
		astutil.AddImport(p.Fset, f, simrtPath)
		for _, imp := range []string{"sync", "sync/atomic"} {
			if !astutil.UsesImport(f, imp) {
				astutil.DeleteImport(p.Fset, f, imp)
			}
		}
		// comments are positioned by offset; after node insertion they could
		// land in odd places, so drop everything but the package doc.
		var keep []*ast.CommentGroup
		for _, cg := range f.Comments {
			if cg.End() < f.Package {
				keep = append(keep, cg)
			}
		}
		f.Comments = keep
	}
	return changed, nil
}

func isPureExpr(e ast.Expr) bool {
	switch x := e.(type) {
	case *ast.Ident:
		return true
	case *ast.SelectorExpr:
		return isPureExpr(x.X)
	case *ast.ParenExpr:
		return isPureExpr(x.X)
	case *ast.StarExpr:
		return isPureExpr(x.X)
	}
	return false
}
