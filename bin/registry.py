"""Registry of checks: property -> engine, budgets, evidence wording."""

ENGINES = {
    "capsim": {
        "real": ["capnp.Client / clientHook / ClientPromise / WeakClient (capability.go), mechanically instrumented"],
        "stub": ["ClientHook implementations (instrumented recorders)", "scheduler (simrt baton in a testing/synctest bubble)"],
    },
}

ENGINES["promsim"] = {
    "real": ["capnp.Promise / Answer / Future / pipelineClient (answer.go) and capnp.Client (capability.go), mechanically instrumented"],
    "stub": ["PipelineCaller and result-capability ClientHooks (instrumented recorders)", "scheduler (simrt baton in a testing/synctest bubble)"],
}

ENGINES["srvsim"] = {
    "real": ["server.Server, answerQueue, structReturner, returnEmbargoer (server/), capnp.Client, capnp.Promise/Answer - mechanically instrumented"],
    "stub": ["method implementations, Shutdowner, Returner for RecvCall (instrumented recorders)", "scheduler (simrt baton in a testing/synctest bubble)"],
}

ENGINES["streamsim"] = {
    "real": ["internal/packed (Pack, Unpack, Reader - built from a copy of the working tree's files as package simpacked)", "capnp.Encoder / Decoder / Marshal / Unmarshal / UnmarshalPacked (message.go)"],
    "stub": ["byte pipe between writer and reader (simio: chunking, zero reads, EOF or error at byte k)", "bufio size knob"],
}

RULE_STREAM = ("each run generates one stream from the tape (payload grammar / hostile bytes / encoder output) and then enumerates its cut points "
               "(every byte offset for streams up to the stated size, sampled beyond) plus one read error; a run is non-trivial if at least one cut or fault "
               "was applied; distinct = distinct hashes of (stream bytes, pipe configuration)")

ENGINES["buildsim"] = {
    "real": ["builder and reader API of the root package (message.go, segment.go, struct.go, list.go, pointer.go, canonical.go), Marshal/Unmarshal, Encoder/Decoder, library arenas SingleSegment/MultiSegment"],
    "stub": ["allocator (simarena: tape-chosen segment, slack, grow-vs-new, dirty spare capacity, one injected failure)", "byte pipe between Encoder and Decoder (simio)", "capability hooks (instrumented recorders)"],
}

RULE_BUILD = ("each run is one tape-decided history of 1-3 builder nodes (arena configuration, operation sequence, copies between nodes, injected allocation failure); "
              "non-trivial = at least one operation executed and one oracle evaluation made; distinct = distinct hashes of the final segment bytes of all nodes")

ENGINES["readsim"] = {
    "real": ["read side of the root package (segment.go, rawpointer.go, address.go, list.go, struct.go, pointer.go, message.go, canonical.go), encoding/text, pogs, internal/packed via UnmarshalPacked / NewPackedDecoder, Message.canRead budget (atomics instrumented with schedule points)"],
    "stub": ["storage / link between writer and reader (bit flips, hostile pointer words, torn / dropped / duplicated / swapped segments, tampered segment table)", "faulty Arena", "byte pipe for the Decoder path", "scheduler for concurrent readers"],
}

RULE_READ = ("each run is one tape-decided message (random value tree or aircraftlib message, or a hand-assembled cyclic pointer graph), 0-4 storage faults, one delivery path, "
             "limits T and D, and 1-4 readers; non-trivial = at least one storage fault fired or at least one preemptive context switch between readers; "
             "distinct = distinct hashes of (delivered segment bytes, delivery path, schedule trace)")

ENGINES["rpcsim"] = {
    "real": ["rpc.Conn and everything under it (rpc/*.go), capnp.Client / Promise / Answer, server.Server for the application capabilities, std/capnp/rpc generated accessors - mechanically instrumented"],
    "stub": ["message transport (SimTransport) or byte pipe under the real stream transports", "remote peer: a model peer that only makes spec-legal moves (or a hostile peer / a second real Conn)", "application method implementations and Shutdowners", "clock (testing/synctest)", "scheduler"],
}

ENGINES["textsim"] = {
    "real": ["encoding/text (Encoder, Marshal), internal/strquote, internal/nodemap, schemas registry, generated accessors of the aircraftlib test schema (a copy of the working tree's internal/aircraftlib)"],
    "stub": ["the Encoder's io.Writer (simio: k-th Write fails after accepting a prefix)"],
}

RULE_TEXT = ("each run is one tape-decided history of consecutive Encode calls (3-42, or 60 000-100 000 in long-history runs) on one long-lived encoder, every value generated through the generated setters; "
             "non-trivial = more than one Encode in the history; distinct = distinct hashes of the sequence of rendered texts")

RULE_SCHED = ("each run is one seeded schedule+workload drawn from the choice tape; a run is non-trivial if it had at least one "
              "preemptive context switch or fired fault; distinct = distinct hashes of the full decision trace (schedule choices, "
              "fired faults, fired events) among non-trivial runs")

CHECKS = {
    "C20": {
        "claim": "history and writer-fault simulation of text.Encoder: a long-lived encoder renders tape-generated values of the aircraftlib schema (all numeric kinds, text and data with quotes, backslashes, control and high bytes, enums in and out of range, unions, groups, nested lists, defaults) for up to 10^5 consecutive calls and must give byte-identical output to a fresh encoder at every step; each rendering is parsed by an independent parser for the text format and every recovered field must equal what was set through the generated accessors; a failing Write must surface as an error and leave only a prefix of the rendering; the history also switches the encoder between registries (the default one set explicitly, a copy of the compiled-in schema, a second schema version in which every field and enumerant name is renamed) and the names shown must come from the registry in force",
        "engine": "textsim", "level": "exploration",
        "budget": {"quick": 25, "thorough": 600},
        "min_runs": {"quick": 25000},  # (histories with registry switches cost about three times as much per run)
        "rule": RULE_TEXT,
        "faults": ["write_err"],
    },
    "C08": {
        "claim": "a hostile peer drives some legal traffic (so that the tables are non-empty) and then emits 1-3 hostile messages per run out of 22 kinds: Returns / Finishes / Releases / Disembargoes for unknown, reused or finished ids, calls to unknown imports and finished answers, descriptors naming non-existent exports and imports, odd transforms, sendResultsTo=yourself, unknown union discriminants, unsupported level-2+ messages, unsolicited Unimplemented and Abort, odd payload contents, and bit flips / hostile pointer words inside valid Calls; local callers keep calls in flight; no panic, no process abort, no deadlock, every local call completes, and if the connection is still up afterwards a well-formed Bootstrap must be answered (not wedged); Close returns and leaks nothing",
        "engine": "rpcsim", "level": "exploration",
        "budget": {"quick": 30, "thorough": 900},
        "min_runs": {"quick": 15000},
        "rule": RULE_SCHED,
        "faults": ["hostile_message", "ctx_cancel"],
        "params": {"mode": "hostile"},
    },
    "C09": {
        "claim": "two-stage per-operation fault sweep made possible by deterministic replay: each scenario (a seed of the C06/C07 workload) is first run fault-free to count its transport operations and steps, then re-run once for every NewMessage / send / receive index with each fault kind (error on NewMessage, error on send, stalled send, receive error, EOF) and, at up to 60 evenly spaced steps, with Close, Close twice followed by new operations, and cancellation of every outstanding call; every run must finish all its operations, Close must return, no goroutine started by the connection may survive, no mutex nor the sender lock may stay held, nothing may panic; the stream topology covers both NewStreamTransport and NewPackedStreamTransport (torn-write rule evaluated on the unpacked stream), over a stream without deadline support (leaky-read path) and over one with working SetReadDeadline/SetWriteDeadline (reads interrupted through the deadline; fault write_stall: the peer stops reading in the middle of a write, which only the write deadline, Close or the partial-write timeout ends); the model peer echoes Disembargo as a move of its own, so Close also meets embargoes that are still up with calls queued behind them",
        "engine": "rpcsim", "level": "fault_enumeration",
        "budget": {"quick": 40, "thorough": 1200},
        "min_runs": {"quick": 60},
        "rule": "each evaluation is one base scenario (seed) together with its complete sweep: every transport-operation index x fault kind, and sampled steps x {close, close twice, cancel}; non-trivial = at least one fault fired; distinct = distinct hashes of the base schedule combined with the schedules of all its faulted re-runs; coverage.probes.sweep_cases counts the individual faulted runs",
        "faults": ["newmsg_err", "send_err", "send_stall", "recv_err", "recv_eof", "short_write", "write_err_n0", "read_err", "eof", "close", "close_again", "cancel"],
        "params": {"mode": "sweep"},
        "watchdog_s": 900,
        "coverage_extra": {"explanation": "exhaustive is per scenario: all transport operation indices of the fault-free run are swept (probes.sweep_cases / sweep_scenarios); scenarios themselves are sampled"},
    },
    "C07": {
        "claim": "same simulated sessions as C06 biased to capability traffic (the same capability sent repeatedly, partial Releases, Finish with releaseResultCaps before or after the Return, Returns with releaseParamCaps, local AddRef/Release of imports racing with newly arriving references); conservation is checked from the wire history: peer reference counts never go negative, a Release never exceeds the references actually delivered, application capabilities are not released while the peer holds a reference and the connection is open, after an orderly wind-down every table is empty and every capability released, and after Close each capability has been released exactly once; in the two-Conn topology: no application capability shut down while a caller holds a handle designating it, both Conns' question/answer/export/import/embargo tables empty once every handle is released and every call finished, every capability shut down exactly once; payloads may name one capability in two capability-table entries (parameters and results), given back in bulk by releaseParamCaps / releaseResultCaps; the otherwise conforming peer may send a call whose capability table holds a good descriptor followed by one naming a non-existent export (exception expected, the reference received with the first descriptor must be given back)",
        "engine": "rpcsim", "level": "exploration",
        "budget": {"quick": 30, "thorough": 900},
        "min_runs": {"quick": 12000},
        "rule": RULE_SCHED,
        "faults": ["ctx_cancel", "app_release"],
        "params": {"mode": "caps"},
    },
    "C06": {
        "claim": "seeded search over schedules and message timings of one real rpc.Conn against a spec-following model peer (Bootstrap, Calls to imports and to promised answers that have or have not returned, Finish before or after Return, Release) and 0-2 local caller tasks; a protocol monitor over the two-directional message history checks exactly one Return per question with the content the application produced, exactly-once resolution of local calls with the peer's result, no question id reuse before its Finish, and per-target delivery order; the model peer also plays the embargo loop-back in both directions (answers with capabilities the Conn itself hosts, reflects the Conn's pipelined calls to them in order, relays their Returns, echoes and itself sends Disembargo) with an order oracle over local calls pipelined on one answer and an echo-after-reflection oracle; one run in four joins TWO real Conns over a pair of simulated transports with capabilities and callers on both sides (three-party paths, nested calls by implementations) and application-level oracles: exactly-once delivery to the designated capability, result content, per-handle / per-answer order, no connection loss in a fault-free session; local calls are pipelined through result pointer 0 or 1 and the peer may name the Conn's own export in the second pointer next to a capability of its own in the first (one embargo per called path, issue order checked per answer and pointer)",
        "engine": "rpcsim", "level": "exploration",
        "budget": {"quick": 30, "thorough": 900},
        "min_runs": {"quick": 12000},
        "rule": RULE_SCHED,
        "faults": ["ctx_cancel", "app_release"],
        "params": {"mode": "conform"},
    },
    "C01": {
        "claim": "fault injection on stored / in-flight bytes between a writer node and a reader node: bit flips, boundary-valued hostile pointer words (offsets onto the last word / one past the end / before the start, huge counts, composite tags with zero-size elements and negative counts, far pointers to missing segments, bad landing pads, unknown pointer kinds), torn, dropped, duplicated and swapped segments, tampered segment tables and faulty arenas, delivered through every unmarshal/decoder path; 1-3 readers (sequentially, or concurrently under the scheduler) apply every read-side operation; no panic, no process abort, no hang, and every byte slice handed out lies inside the supplied bytes (segments have cap==len)",
        "engine": "readsim", "level": "exploration",
        "budget": {"quick": 25, "thorough": 600},
        "min_runs": {"quick": 200000},
        "rule": RULE_READ,
        "faults": ["bitflip", "word_smash", "tag_smash", "truncate_segment", "segment_drop", "segment_dup", "segment_swap", "segtable_tamper", "arena_fault"],
    },
    "C02": {
        "claim": "hand-assembled cyclic and aliasing pointer graphs (through struct fields, composite-list elements and pointer-list elements) are read by 1-4 concurrent readers with a schedule point before every atomic operation of the read budget; (a) the true size of everything handed out never exceeds T, (b) per-object charges calibrated in a sequential prelude are at least the true size and the concurrent history is linearizable (porcupine) against the sequential budget, including the final value of the limit, (c) no dereference succeeds deeper than D, (d) deep copy, Canonicalize, Equal and CopyFrom on a cyclic chain consume budget bounded by D rather than T; the graphs contain structs, pointer lists, composite lists (also zero-sized elements and understated pointers) and pointer-free lists (void, bit, byte, 8-byte: Data/Text-like leaves)",
        "engine": "readsim", "level": "exploration",
        "budget": {"quick": 25, "thorough": 600},
        "min_runs": {"quick": 3000},
        "rule": RULE_READ,
        "faults": ["pointer_rewire (hand-assembled cycles)"],
    },
    "C04": {
        "claim": "seeded search over builder histories on simulated allocators (exact-fit, dirty spare capacity, forced new segments, one injected allocation failure) and the library's own arenas: after every few operations the whole tree is read back through the accessors and compared with a value-tree model, and at the end through Marshal/Unmarshal, MarshalPacked/UnmarshalPacked and Encoder->pipe->Decoder (packed or not, tape-chosen chunking, buffer reuse)",
        "engine": "buildsim", "level": "exploration",
        "budget": {"quick": 20, "thorough": 480},
        "min_runs": {"quick": 300000},
        "rule": RULE_BUILD,
        "faults": ["alloc_fail", "exact_fit", "dirty_cap", "always_new_segment"],
    },
    "C05": {
        "claim": "same histories as C04; the serialised bytes are parsed by an independent frame parser, validated by an independent implementation of the encoding spec (alignment, every pointer inside its segment, landing pads, list sizes, pairwise disjoint objects) and decoded by an independent decoder whose tree must equal the model exactly (so never-written bytes are zero even when spare capacity was dirty)",
        "engine": "buildsim", "level": "exploration",
        "budget": {"quick": 20, "thorough": 480},
        "min_runs": {"quick": 300000},
        "rule": RULE_BUILD,
        "faults": ["alloc_fail", "exact_fit", "dirty_cap", "always_new_segment"],
    },
    "C16": {
        "claim": "seeded search over histories in which builder nodes exchange subtrees (SetPtr across messages, SetRoot, CopyFrom and List.SetStruct with different section sizes, forced copies of list members, copies onto non-empty destinations, copies interrupted by an allocation failure) followed by mutations on both sides; both sides must keep equal to their own models, copied capabilities must occupy their own table entry holding their own reference (hooks shut down exactly once after all messages are reset)",
        "engine": "buildsim", "level": "exploration",
        "budget": {"quick": 20, "thorough": 480},
        "min_runs": {"quick": 200000},
        "rule": RULE_BUILD,
        "faults": ["alloc_fail", "exact_fit", "dirty_cap", "always_new_segment"],
    },
    "C17": {
        "claim": "replica invariant: for tape-chosen pairs of live subtrees across nodes (values reached by different allocation and copy histories, padded copies, re-encodings in other segment layouts, single-leaf mutations) capnp.Equal must agree with an independent implementation of the documented rules and be reflexive and symmetric; pairs on which the documented rules are silent are skipped, the all-pairs quantifier is sampled, not enumerated",
        "engine": "buildsim", "level": "exploration",
        "budget": {"quick": 20, "thorough": 480},
        "min_runs": {"quick": 300000},
        "rule": RULE_BUILD,
        "faults": ["alloc_fail", "exact_fit", "dirty_cap", "always_new_segment"],
    },
    "C18": {
        "claim": "replica invariant: for capability-free structs reached by the simulated histories, Canonicalize must produce a valid single-segment message that decodes to an equal value, equals an independent canonicaliser byte for byte, is idempotent, and is identical for re-encodings in other layouts and version-padded copies; structs reaching a capability must be rejected; replicas include an encoding whose sub-word lists are followed by non-zero padding bytes",
        "engine": "buildsim", "level": "exploration",
        "budget": {"quick": 20, "thorough": 480},
        "min_runs": {"quick": 300000},
        "rule": RULE_BUILD,
        "faults": ["alloc_fail", "exact_fit", "dirty_cap", "always_new_segment"],
    },
    "C13": {
        "claim": "per generated packed stream, every cut point (EOF at byte k; exhaustive for streams up to 512 bytes) and a read error are injected between packer and unpacker; one-shot Unpack, the streaming Reader (all read sizes, ReadWord, bufio sizes, chunkings, zero-length reads) and an independent implementation of the packing spec must agree on output and acceptability, truncation must surface as an error without invented bytes, and output is bounded by the spec",
        "engine": "streamsim", "level": "fault_enumeration",
        "budget": {"quick": 20, "thorough": 480},
        "min_runs": {"quick": 100000},
        "rule": RULE_STREAM,
        "faults": ["eof_at", "read_err", "zero_read", "read_chunk"],
        "coverage_extra": {"explanation": "exhaustive is false for the batch as a whole: cut points are enumerated exhaustively per stream (see probes.streams_fully_enumerated and probes.cut_points_checked), streams themselves are sampled"},
    },
    "C14": {
        "claim": "per generated sequence of 1-5 messages written by the real Encoder (packed or not), every cut point of the byte stream (exhaustive up to 1 KiB) and a read error are injected; the real Decoder (with and without buffer reuse, several MaxMessageSize values, all chunkings) must return exactly the complete frames, io.EOF only at a frame boundary and an error anywhere else; hostile headers are spliced in and the allocation of Decode and Unmarshal is bounded with runtime.MemStats; for every frame, MaxMessageSize values from 24 bytes below to 8 bytes above its exact size (header included): fits => decoded unchanged, does not fit => refused, and never more than MaxMessageSize bytes consumed from the reader by one Decode; also limits of 1, 4 and 7 bytes (smaller than any segment table), which no frame fits",
        "engine": "streamsim", "level": "fault_enumeration",
        "budget": {"quick": 20, "thorough": 480},
        "min_runs": {"quick": 15000},
        "rule": RULE_STREAM,
        "faults": ["eof_at", "read_err", "hdr_tamper", "read_chunk"],
        "vlimit_kb": 2 * 1024 * 1024,
        "coverage_extra": {"explanation": "exhaustive is false for the batch as a whole: cut points are enumerated exhaustively per stream (probes.streams_fully_enumerated), streams are sampled"},
    },
    "C12": {
        "claim": "seeded search over schedules of 1-4 caller tasks against a real server.Server (every mutex acquisition and channel wake-up is a schedule point) with tape-chosen policies, ack/return timings, cancellations, pipelined calls on unreturned answers and shutdown while calls run; start order, ack gating, the concurrency cap, exactly-once completion with the implementation's own result, pipelined delivery order and shutdown semantics are checked at every event and over the recorded history; in half of the runs the callers use the Server directly and another task calls Server.Shutdown at an arbitrary point (calls queued behind the admission gate or waiting for a slot): Shutdown returns only after every running implementation returned, the user's Shutdown ran exactly once, nothing starts afterwards; a call that was never delivered must have been cancelled or shut out; one call in four carries its capability in pointer field 257 and is pipelined on through that field (two-byte transform index through the answer queue)",
        "engine": "srvsim", "level": "exploration",
        "budget": {"quick": 25, "thorough": 600},
        "min_runs": {"quick": 50000},
        "rule": RULE_SCHED,
        "faults": ["ctx_cancel", "janitor_cancel"],
    },
    "C11": {
        "claim": "seeded search over schedules of tasks issuing pipelined calls, Future.Client requests (same path repeatedly), calls through pipelined clients, Fulfill/Reject/Join (chains up to 3) and concurrent ReleaseClients on real capnp.Promise objects; every call must be delivered exactly once to the right party or fail legitimately, resolution may not return while a delivery to the PipelineCaller is in progress, result capabilities are released exactly once, and any blocked operation is reported as a deadlock with its wait-for set",
        "engine": "promsim", "level": "exploration",
        "budget": {"quick": 25, "thorough": 600},
        "min_runs": {"quick": 60000},
        "rule": RULE_SCHED,
        "faults": ["ctx_precancelled"],
    },
    "C10": {
        "claim": "seeded search over schedules (every lock acquisition in capability.go is a schedule point) and operation sequences on shared clients, weak references and client promises, including one Client used by two tasks at once, checked against a reference-count / resolution-chain model at every hook event and at the end of the run; Brand (reached through Client.State) counts as an access in progress across a schedule point, like Send and Recv",
        "engine": "capsim", "level": "exploration",
        "budget": {"quick": 25, "thorough": 600},
        "min_runs": {"quick": 100000},
        "rule": RULE_SCHED,
        "faults": [],
    },
}


ENGINE_KIND = {
    "textsim": "deterministic simulation of long encoder histories and writer faults for encoding/text, with an independent text-value parser as oracle",
    "rpcsim": "deterministic simulation of rpc.Conn against a model peer / hostile peer / second Conn with a protocol monitor; per-operation transport fault sweep",
    "readsim": "deterministic simulation of writer -> faulty storage -> 1-4 readers; linearizability of the read budget checked with porcupine",
    "buildsim": "deterministic simulation of builder nodes on simulated allocators with an executable value-tree model and independent wire-format oracles",
    "streamsim": "deterministic simulation of writer -> faulty byte pipe -> reader for the packed codec and the stream framing, with per-stream cut-point enumeration",
    "capsim": "deterministic simulation of tasks sharing capnp.Client handles, weak refs and client promises",
    "promsim": "deterministic simulation of pipelined calls and resolution on capnp.Promise",
    "srvsim": "deterministic simulation of callers, implementations and shutdown of server.Server",
}

NOT_APPLICABLE = [
    {"property_id": "C03", "reason": "pure function of the input bytes: no schedule, clock, fault, peer or history for a simulator to control; its extra reach over C04/C05 is encodings this library never produces, i.e. input generation (DESIGN.md section 5)"},
    {"property_id": "C15", "reason": "batch code generator: schema in, text out; no concurrency, clock, I/O fault or history, and output stability depends on Go map order which no seed controls (DESIGN.md section 5)"},
    {"property_id": "C19", "reason": "pogs Insert/Extract are stateless, single-threaded, I/O-free pure functions of (Go value, message) (DESIGN.md section 5)"},
]
