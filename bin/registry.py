"""Registry of checks: property -> engine, budgets, evidence wording."""

ENGINES = {
    "capsim": {
        "real": ["capnp.Client / clientHook / ClientPromise / WeakClient (capability.go), mechanically instrumented"],
        "stub": ["ClientHook implementations (instrumented recorders)", "scheduler (simrt baton in a testing/synctest bubble)"],
    },
}

ENGINES["promsim"] = {
    "real": ["capnp.Promise / Answer / Future / pipelineClient (answer.go) and capnp.Client (capability.go), mechanically instrumented"],
    "stub": ["PipelineCaller and result-capability ClientHooks (instrumented recorders)", "scheduler (simrt baton in a testing/synctest bubble)"],
}

ENGINES["srvsim"] = {
    "real": ["server.Server, answerQueue, structReturner, returnEmbargoer (server/), capnp.Client, capnp.Promise/Answer - mechanically instrumented"],
    "stub": ["method implementations, Shutdowner, Returner for RecvCall (instrumented recorders)", "scheduler (simrt baton in a testing/synctest bubble)"],
}

RULE_SCHED = ("each run is one seeded schedule+workload drawn from the choice tape; a run is non-trivial if it had at least one "
              "preemptive context switch or fired fault; distinct = distinct hashes of the full decision trace (schedule choices, "
              "fired faults, fired events) among non-trivial runs")

CHECKS = {
    "C12": {
        "engine": "srvsim", "level": "exploration",
        "budget": {"quick": 25, "thorough": 600},
        "rule": RULE_SCHED,
        "faults": ["ctx_cancel", "janitor_cancel"],
    },
    "C11": {
        "engine": "promsim", "level": "exploration",
        "budget": {"quick": 25, "thorough": 600},
        "rule": RULE_SCHED,
        "faults": ["ctx_precancelled"],
    },
    "C10": {
        "engine": "capsim", "level": "exploration",
        "budget": {"quick": 25, "thorough": 600},
        "rule": RULE_SCHED,
        "faults": [],
    },
}
