"""Registry of checks: property -> engine, budgets, evidence wording."""

ENGINES = {
    "capsim": {
        "real": ["capnp.Client / clientHook / ClientPromise / WeakClient (capability.go), mechanically instrumented"],
        "stub": ["ClientHook implementations (instrumented recorders)", "scheduler (simrt baton in a testing/synctest bubble)"],
    },
}

ENGINES["promsim"] = {
    "real": ["capnp.Promise / Answer / Future / pipelineClient (answer.go) and capnp.Client (capability.go), mechanically instrumented"],
    "stub": ["PipelineCaller and result-capability ClientHooks (instrumented recorders)", "scheduler (simrt baton in a testing/synctest bubble)"],
}

ENGINES["srvsim"] = {
    "real": ["server.Server, answerQueue, structReturner, returnEmbargoer (server/), capnp.Client, capnp.Promise/Answer - mechanically instrumented"],
    "stub": ["method implementations, Shutdowner, Returner for RecvCall (instrumented recorders)", "scheduler (simrt baton in a testing/synctest bubble)"],
}

RULE_SCHED = ("each run is one seeded schedule+workload drawn from the choice tape; a run is non-trivial if it had at least one "
              "preemptive context switch or fired fault; distinct = distinct hashes of the full decision trace (schedule choices, "
              "fired faults, fired events) among non-trivial runs")

CHECKS = {
    "C12": {
        "claim": "seeded search over schedules of 1-4 caller tasks against a real server.Server (every mutex acquisition and channel wake-up is a schedule point) with tape-chosen policies, ack/return timings, cancellations, pipelined calls on unreturned answers and shutdown while calls run; start order, ack gating, the concurrency cap, exactly-once completion with the implementation's own result, pipelined delivery order and shutdown semantics are checked at every event and over the recorded history",
        "engine": "srvsim", "level": "exploration",
        "budget": {"quick": 25, "thorough": 600},
        "rule": RULE_SCHED,
        "faults": ["ctx_cancel", "janitor_cancel"],
    },
    "C11": {
        "claim": "seeded search over schedules of tasks issuing pipelined calls, Future.Client requests (same path repeatedly), calls through pipelined clients, Fulfill/Reject/Join (chains up to 3) and concurrent ReleaseClients on real capnp.Promise objects; every call must be delivered exactly once to the right party or fail legitimately, resolution may not return while a delivery to the PipelineCaller is in progress, result capabilities are released exactly once, and any blocked operation is reported as a deadlock with its wait-for set",
        "engine": "promsim", "level": "exploration",
        "budget": {"quick": 25, "thorough": 600},
        "rule": RULE_SCHED,
        "faults": ["ctx_precancelled"],
    },
    "C10": {
        "claim": "seeded search over schedules (every lock acquisition in capability.go is a schedule point) and operation sequences on shared clients, weak references and client promises, including one Client used by two tasks at once, checked against a reference-count / resolution-chain model at every hook event and at the end of the run",
        "engine": "capsim", "level": "exploration",
        "budget": {"quick": 25, "thorough": 600},
        "rule": RULE_SCHED,
        "faults": [],
    },
}


ENGINE_KIND = {
    "capsim": "deterministic simulation of tasks sharing capnp.Client handles, weak refs and client promises",
    "promsim": "deterministic simulation of pipelined calls and resolution on capnp.Promise",
    "srvsim": "deterministic simulation of callers, implementations and shutdown of server.Server",
}

NOT_APPLICABLE = [
    {"property_id": "C03", "reason": "pure function of the input bytes: no schedule, clock, fault, peer or history for a simulator to control; its extra reach over C04/C05 is encodings this library never produces, i.e. input generation (DESIGN.md section 5)"},
    {"property_id": "C15", "reason": "batch code generator: schema in, text out; no concurrency, clock, I/O fault or history, and output stability depends on Go map order which no seed controls (DESIGN.md section 5)"},
    {"property_id": "C19", "reason": "pogs Insert/Extract are stateless, single-threaded, I/O-free pure functions of (Go value, message) (DESIGN.md section 5)"},
]
